"""C10 (engine E2, CrossHair): list behaviour of the sequence classes matches a Python list.

Each function is a contract `post: _` over symbolic ints (length, index, slice parts, operation selector)
driving the REAL object methods on an object whose elements are concrete, pairwise distinct values.
The reference is Python's own list of tags subjected to the same operation.  The class under test is
selected with the environment variable C10_CLASS (one CrossHair process per class and contract)."""
import os
import warnings
from typing import List, Optional

warnings.filterwarnings('ignore')
import numpy as np  # noqa: E402
import spatialmath as sm  # noqa: E402
from spatialmath import base  # noqa: E402

CLSNAME = os.environ.get('C10_CLASS', 'SO2')
CLS = getattr(sm, CLSNAME)
OTHER = sm.SE3 if CLSNAME not in ('SE3', 'SO3') else sm.Twist3      # an object of an unrelated class
SUBCLASS = {'SO2': sm.SE2, 'SO3': sm.SE3, 'Quaternion': sm.UnitQuaternion}.get(CLSNAME)     # a strict subclass, if any
PARENT = {'SE2': sm.SO2, 'SE3': sm.SO3, 'UnitQuaternion': sm.Quaternion}.get(CLSNAME)       # the parent class, if any
NEL = 14


def _envint(name):
    v = os.environ.get(name, '')
    return None if v in ('', 'any') else (None if v == 'None' else int(v))


# optional specialisation of the symbolic domain (one CrossHair process per slice of the domain, so that each
# process can exhaust its paths): fixed length, fixed slice step, fixed operation
FIX_N = _envint('C10_N')
FIX_OP = _envint('C10_OP')
FIX_STEP_SET = os.environ.get('C10_STEP', 'any') != 'any'
FIX_STEP = _envint('C10_STEP')
BOUND = _envint('C10_BOUND') or 7


def _elements():
    out = []
    for k in range(NEL):
        a = 0.1 * (k + 1)
        if CLSNAME == 'SO2':
            out.append(base.rot2(a))
        elif CLSNAME == 'SE2':
            out.append(base.trot2(a, t=[k, -k]))
        elif CLSNAME == 'SO3':
            out.append(base.rotx(a))
        elif CLSNAME == 'SE3':
            out.append(base.trotx(a, t=[k, 1, 2]))
        elif CLSNAME == 'Quaternion':
            out.append(np.r_[k + 1.0, 2.0, 3.0, 4.0])
        elif CLSNAME == 'UnitQuaternion':
            out.append(np.r_[np.cos(a / 2), np.sin(a / 2), 0.0, 0.0])
        elif CLSNAME == 'Twist2':
            out.append(np.r_[k + 1.0, 2.0, 0.5])
        elif CLSNAME in ('Twist3', 'Plucker', 'SpatialVelocity', 'SpatialAcceleration', 'SpatialForce', 'SpatialMomentum'):
            out.append(np.r_[k + 1.0, 2.0, 3.0, 0.1, 0.2, 0.3])
        else:
            raise KeyError(CLSNAME)
    return out


_ELEMS = _elements()


def _empty():
    if hasattr(CLS, 'Empty') and CLSNAME not in ('SpatialVelocity', 'SpatialAcceleration', 'SpatialForce', 'SpatialMomentum'):
        return CLS.Empty()
    x = CLS(_ELEMS[0])
    x.data = []
    return x


def _mk(tags: List[int]):
    """object of the class under test whose elements are the tagged concrete values (representation
    invariant: .data is a list of valid arrays of the class's shape)"""
    x = _empty()
    x.data = [_ELEMS[k] for k in tags]
    return x


def _tag_of(a) -> int:
    for k, e in enumerate(_ELEMS):
        # equal up to the last bit: UnitQuaternion re-normalises a value every time it is wrapped
        if isinstance(a, np.ndarray) and a.shape == e.shape and bool((np.abs(a - e) <= 1e-12).all()):
            return k
    return -1


def _tags(x) -> List[int]:
    return [_tag_of(a) for a in x.data]


def _valid_state(x) -> bool:
    return isinstance(x.data, list) and all(_tag_of(a) >= 0 for a in x.data) and type(x) is CLS


def index_matches_list(n: int, i: int) -> bool:
    """
    x[i] for every length and (negative) index: same element as list, same class, IndexError exactly when list raises
    pre: 0 <= n <= 5
    pre: -8 <= i <= 8
    post: _
    """
    ref = list(range(n))
    x = _mk(ref)
    try:
        r = ref[i]
    except IndexError:
        try:
            x[i]
        except IndexError:
            return _tags(x) == ref
        except Exception:
            return False
        return False
    try:
        got = x[i]
    except Exception:
        return False
    return type(got) is CLS and _tags(got) == [r] and _tags(x) == ref


def slice_matches_list(n: int, start: Optional[int], stop: Optional[int], step: Optional[int]) -> bool:
    """
    x[start:stop:step] holds the same elements as the list slice and is an object of the same class
    pre: 0 <= n <= 5
    pre: start is None or -BOUND <= start <= BOUND
    pre: stop is None or -BOUND <= stop <= BOUND
    pre: step is None or (-3 <= step <= 3 and step != 0)
    pre: FIX_N is None or n == FIX_N
    pre: (not FIX_STEP_SET) or step == FIX_STEP
    post: _
    """
    ref = list(range(n))
    x = _mk(ref)
    want = ref[start:stop:step]
    try:
        got = x[start:stop:step]
    except Exception:
        return False
    return type(got) is CLS and _tags(got) == want and _tags(x) == ref


def iter_len_match(n: int) -> bool:
    """
    len() and iteration: n objects of the same class, in order
    pre: 0 <= n <= 5
    post: _
    """
    ref = list(range(n))
    x = _mk(ref)
    if len(x) != n:
        return False
    seen = []
    for e in x:
        if type(e) is not CLS or len(e) != 1:
            return False
        seen.append(_tags(e)[0])
    return seen == ref


def step_matches_list(n: int, op: int, i: int, m: int) -> bool:
    """
    One inductive step from an arbitrary valid state of length n: one mutator, arbitrary index, operand holding
    m values; the post-state equals the list model's post-state and keeps the representation invariant.
    ops: 0 append, 1 extend, 2 insert, 3 pop, 4 del, 5 setitem, 6 reverse, 7 clear, 8 pop()
    pre: 0 <= n <= 5
    pre: 0 <= op <= 8
    pre: -7 <= i <= 7
    pre: 1 <= m <= 3
    pre: FIX_N is None or n == FIX_N
    pre: FIX_OP is None or op == FIX_OP
    post: _
    """
    ref = list(range(n))
    x = _mk(ref)
    other_tags = [8 + k for k in range(m)]
    other = _mk(other_tags)
    try:
        if op == 0:
            if m != 1:
                return True
            ref.append(other_tags[0])
            x.append(other)
        elif op == 1:
            ref.extend(other_tags)
            x.extend(other)
        elif op == 2:
            if m != 1:
                return True
            ref.insert(i, other_tags[0])
            x.insert(i, other)
        elif op == 3 or op == 8:
            try:
                r = ref.pop(i) if op == 3 else ref.pop()
            except IndexError:
                try:
                    x.pop(i) if op == 3 else x.pop()
                except IndexError:
                    return _tags(x) == ref
                return False
            got = x.pop(i) if op == 3 else x.pop()
            if type(got) is not CLS or _tags(got) != [r]:
                return False
        elif op == 4:
            try:
                del ref[i]
            except IndexError:
                try:
                    del x[i]
                except IndexError:
                    return _tags(x) == ref
                return False
            del x[i]
        elif op == 5:
            if m != 1:
                return True
            try:
                ref[i] = other_tags[0]
            except IndexError:
                try:
                    x[i] = other
                except IndexError:
                    return _tags(x) == list(range(n))
                return False
            x[i] = other
        elif op == 6:
            ref.reverse()
            x.reverse()
        elif op == 7:
            ref.clear()
            x.clear()
    except Exception:
        return False
    return _tags(x) == ref and _valid_state(x) and _tags(other) == other_tags


def wrong_operand_rejected(n: int, op: int, i: int, kind: int) -> bool:
    """
    A different class (kind 0 unrelated, kind 2 a strict subclass, kind 3 the parent class) or a multi-valued object where
    a single value is required (kind 1) is rejected with an exception and the object is unchanged.
    ops: 0 append, 1 insert, 2 setitem, 3 extend (class only)
    pre: 1 <= n <= 4
    pre: 0 <= op <= 3
    pre: 0 <= i < n
    pre: 0 <= kind <= 3
    post: _
    """
    ref = list(range(n))
    x = _mk(ref)
    if kind == 2:
        if SUBCLASS is None:
            return True
        bad = SUBCLASS()
    elif kind == 3:
        if PARENT is None:
            return True
        bad = PARENT()
    else:
        bad = OTHER() if kind == 0 else _mk([8, 9])
    if op == 3 and kind == 1:
        return True
    try:
        if op == 0:
            x.append(bad)
        elif op == 1:
            x.insert(i, bad)
        elif op == 2:
            x[i] = bad
        else:
            x.extend(bad)
    except Exception:
        return _tags(x) == ref and _valid_state(x)
    return False


DIM = int(_ELEMS[0].shape[0])      # rows (or entries) of one value: 2, 3, 4 or 6


def dimension_length_matches_list(n: int, start: int, rev: int) -> bool:
    """
    the length at which a list of values can be mistaken for ONE matrix (as many values as a value has rows / entries; 6 for
    the 6-vector classes, beyond the lengths of the other contracts): a slice holding exactly that many values, and
    construction from that many single-valued objects or arrays, keep the values apart and in order
    pre: DIM <= n <= DIM + 2
    pre: 0 <= start <= n - DIM
    pre: 0 <= rev <= 1
    post: _
    """
    ref = list(range(n))
    x = _mk(ref)
    sl = slice(start, start + DIM) if rev == 0 else slice(start + DIM - 1, (start - 1) if start > 0 else None, -1)
    want = ref[sl]
    if len(want) != DIM:
        return False
    try:
        got = x[sl]
        objs = CLS([_mk([k]) for k in want])
        arrs = CLS([_ELEMS[k] for k in want])
    except Exception:
        return False
    return type(got) is CLS and _tags(got) == want and _tags(x) == ref and _tags(objs) == want and _tags(arrs) == want


def construct_from_objects(n: int) -> bool:
    """
    constructor from a list of n single-valued objects, the copy constructor, Empty and Alloc
    pre: 1 <= n <= 5
    post: _
    """
    objs = [_mk([k]) for k in range(n)]
    try:
        x = CLS(objs)
        y = CLS(x)
    except Exception:
        return False
    if _tags(x) != list(range(n)) or _tags(y) != list(range(n)) or type(x) is not CLS:
        return False
    if CLSNAME in ('SO2', 'SE2', 'SO3', 'SE3', 'Quaternion', 'UnitQuaternion', 'Twist2', 'Twist3', 'Plucker'):
        if len(CLS.Empty()) != 0:
            return False
        if len(CLS.Alloc(n)) != n:
            return False
    return True
