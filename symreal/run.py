"""Runner: explores every claim of a property harness, discharges the obligations with z3 in a
process pool (hard kill on overrun), replays every `sat` against the unshimmed library in a
fresh interpreter, matches reproduced violations against /verif/known_findings.json, writes
/verif/evidence/<id>.json.  Exit codes: 0 ok, 1 violation, 3 harness error."""
import argparse
import hashlib
import importlib
import inspect
import json
import multiprocessing as mp
import multiprocessing.connection as mpc
import os
import re
import subprocess
import sys
import time
import traceback

ROOT = os.path.dirname(os.path.dirname(os.path.abspath(__file__)))
if ROOT not in sys.path:
    sys.path.insert(0, ROOT)

import numpy as np  # noqa: E402
import z3  # noqa: E402
from symreal import core, shims  # noqa: E402
from symreal.api import H, Claim, AssumptionFailed, _looks_not_encodable  # noqa: E402
from symreal.core import Ctx, NotEncodable, PathBudget, PrunedPath  # noqa: E402

NWORKERS = max(2, min(15, (os.cpu_count() or 4) - 1))
PY = sys.executable


# ----------------------------------------------------------------------------- single path

def _where(tb):
    """last frame inside /repo (or the harness) of a traceback"""
    frames = traceback.extract_tb(tb)
    for fr in reversed(frames):
        if '/spatialmath/' in fr.filename:
            return f"{fr.filename[fr.filename.index('/spatialmath/') + 1:]}:{fr.lineno}"
    fr = frames[-1]
    return f"{os.path.basename(fr.filename)}:{fr.lineno}"


def _prune_check(c):
    """explorer hook: is the decision just taken refuted by a cone-of-influence relaxation (1 s)?"""
    goal = c.path[-1]
    rest = list(c.assumptions) + list(c.path[:-1]) + list(c.div_guards)
    for sl in _slices(rest, goal):
        if _solve(sl + [goal], 1.0)[0] == 'unsat':
            return True
    return False


def run_path(claim, decisions, mode='sym', given=None, seed=0, prune=False):
    """execute the claim once; returns (ctx, h, status, info)"""
    c = Ctx(decisions, concolic=(mode == 'concolic'), values=claim.values)
    if prune and decisions:
        c.prune_at = len(decisions) - 1
        Ctx.prune_check = staticmethod(_prune_check)
    c.sym_random = claim.sym_random
    h = H(mode, given=given, seed=seed, tol=claim.tol)
    Ctx.cur = c if mode != 'concrete' else None
    status, info = 'ok', None
    try:
        claim.fn(h)
    except NotEncodable as e:
        status, info = 'notenc', dict(msg=str(e)[:200])
    except PathBudget as e:
        status, info = 'budget', dict(msg=str(e))
    except PrunedPath:
        status, info = 'pruned', None
    except AssumptionFailed:
        status, info = 'assume-failed', None
    except Exception as e:  # noqa: BLE001 - exceptions of the code under test are results
        if _looks_not_encodable(e):
            status, info = 'notenc', dict(msg=f'{type(e).__name__}: {e}'[:200], where=_where(e.__traceback__))
        else:
            status, info = 'exc', dict(type=type(e).__name__, msg=str(e)[:200], where=_where(e.__traceback__))
    finally:
        Ctx.cur = None
    return c, h, status, info


def explore(claim, emit=None):
    """depth-first enumeration of decision prefixes; no solver involved (apart from the bounded pruning lemma).
    `emit` receives every finished path at once, so that an exploration that is cut short keeps what it reached"""
    prefix, paths = [], []
    while True:
        c, h, status, info = run_path(claim, prefix, prune=True)
        dec = c.decisions[:c.pos]
        paths.append(dict(decisions=list(dec), status=status, info=info,
                          labels=[o[0] for o in c.oblig], kinds=[o[2] for o in c.oblig]))
        if emit is not None:
            emit(paths[-1])
        while dec and dec[-1] is False:
            dec.pop()
        if not dec:
            break
        dec[-1] = False
        prefix = dec
        if len(paths) >= claim.max_paths:
            paths.append(dict(decisions=None, status='budget', info=dict(msg='max_paths reached'), labels=[], kinds=[]))
            if emit is not None:
                emit(paths[-1])
            break
    return paths


# ----------------------------------------------------------------------------- solving

def _num(v):
    try:
        if z3.is_algebraic_value(v):
            v = v.approx(30)
        if z3.is_rational_value(v):
            return v.numerator_as_long() / v.denominator_as_long() if abs(v.numerator_as_long()) < 10 ** 300 else float(v.as_fraction())
        if z3.is_int_value(v):
            return float(v.as_long())
    except Exception:  # noqa: BLE001
        pass
    return None


def _model_inputs(c, m):
    import math
    out = {}
    for inp in c.inputs:
        name, kind = inp[0], inp[1]
        if kind == 'real':
            v = _num(m.eval(inp[2], model_completion=True))
            out[name] = 0.0 if v is None else v
        else:
            _, _, v, s, co, lo, hi = inp
            sv, cv = _num(m.eval(s, model_completion=True)), _num(m.eval(co, model_completion=True))
            vv = _num(m.eval(v, model_completion=True))
            if sv is None or cv is None:
                out[name] = 0.0 if vv is None else vv
                continue
            a = math.atan2(sv, cv)
            lo_f = -math.pi if lo is None else float(lo)
            hi_f = math.pi if hi is None else float(hi)
            # pick the representative congruent to atan2(s,c) that is closest to the model's value / inside the range
            cands = [a + 2 * math.pi * k for k in range(-3, 4)]
            cands = [x for x in cands if lo_f - 1e-12 <= x <= hi_f + 1e-12] or [a]
            if vv is not None:
                cands.sort(key=lambda x: abs(x - vv))
            out[name] = cands[0]
    return out


def _vars(f, cache={}):
    """ids of the uninterpreted constants of a formula (cached by ast id; the ast is kept alive by the caller)"""
    out, stack, seen = set(), [f], set()
    while stack:
        e = stack.pop()
        i = e.get_id()
        if i in seen:
            continue
        seen.add(i)
        if z3.is_const(e):
            if e.decl().kind() == z3.Z3_OP_UNINTERPRETED:
                out.add(i)
            continue
        stack.extend(e.children())
    return out


def _slices(base, goal, levels=(1, 2)):
    """cone-of-influence relaxations of `base` around `goal`: formulas within k hops (shared variables) of the
    goal, closed under 'all variables inside the cone'.  A relaxation being unsat proves the full query unsat."""
    vs = [(_vars(f), f) for f in base]
    V = _vars(goal)
    out = []
    for k in range(max(levels)):
        grow = set(V)
        for fv, f in vs:
            if fv & V:
                grow |= fv
        V = grow
        if k + 1 in levels:
            sl = [f for fv, f in vs if fv and fv <= V]
            if len(sl) < len(base):
                out.append(sl)
    return out


def _solve(formulas, timeout_s):
    """one fresh solver per query (the tactic pipeline is only used non-incrementally)"""
    t0 = time.time()
    s = z3.Solver()
    s.set('timeout', max(1, int(timeout_s * 1000)))
    s.add(*formulas)
    r = str(s.check())
    model = s.model() if r == 'sat' else None
    if r == 'unknown' and time.time() - t0 < timeout_s * 0.5:
        # quick give-up of the default pipeline: try nlsat explicitly
        try:
            s2 = z3.Tactic('qfnra-nlsat').solver()
            s2.set('timeout', max(1, int(max(1.0, timeout_s - (time.time() - t0)) * 1000)))
            s2.add(*formulas)
            r2 = str(s2.check())
            if r2 != 'unknown':
                r = r2
                model = s2.model() if r == 'sat' else None
        except z3.Z3Exception:
            pass
    return r, model


def _check(formulas, timeout_s, goal=None):
    """decide `formulas` (+ goal).  With a goal, cone-of-influence relaxations are tried first: their `unsat`
    is an `unsat` of the full query (fewer variables -> nlsat decides in ms what it cannot with all of them)."""
    t0 = time.time()
    if goal is not None:
        for sl in _slices(formulas, goal):
            r, _ = _solve(sl + [goal], min(5.0, timeout_s / 4))
            if r == 'unsat':
                return 'unsat', None, time.time() - t0
        formulas = list(formulas) + [goal]
    r, model = _solve(formulas, max(1.0, timeout_s - (time.time() - t0)))
    return r, model, time.time() - t0


def _solve_obligation(c, base, feas, feas_inputs, i, ob, timeout_s, conn):
    from symreal.poly import normalize_eq
    label, cond, kind, relaxed = ob[:4]
    pair = ob[4] if len(ob) > 4 else None
    cs = z3.simplify(cond)
    if z3.is_true(cs):
        conn.send(('res', i, dict(kind=kind, label=label, result='trivial', time=0.0)))
        return
    conn.send(('start', i))
    if z3.is_false(cs):
        # violated iff the path is feasible
        res = dict(kind=kind, label=label, result='sat' if feas == 'sat' else 'unknown', time=0.0, how='path-feasible')
        if feas == 'sat':
            res['inputs'] = feas_inputs
        conn.send(('res', i, res))
        return
    how = 'exact'
    t0 = time.time()
    if pair is not None and c.rules:
        ncond, zero = normalize_eq(c.rules, pair[0], pair[1], recips=c.recips)
        if ncond is not None:
            how = 'exact+nf'
            cond = ncond
            if pair[2] is not None and not zero and not c.recips:
                d = ncond.arg(0)
                relaxed = z3.And(d <= pair[2], -d <= pair[2])
    tn = time.time() - t0
    r, model, dt = _check(base, timeout_s, goal=z3.Not(cond))
    res = dict(kind=kind, label=label, result=r, time=dt + tn, how=how)
    if r != 'unsat' and relaxed is not None:
        r2, model2, dt2 = _check(base, timeout_s, goal=z3.Not(relaxed))
        res.update(result=r2, time=dt + dt2 + tn, how='tolerance', exact=r)
        if r2 == 'sat':
            model = model2
        elif r2 == 'unknown' and r == 'sat':
            # exact claim refuted, tolerance undecided: keep the exact model as a candidate
            res['result'] = 'sat'
            res['how'] = 'exact-only'
        r = res['result']
    if r == 'sat' and model is not None:
        res['inputs'] = _model_inputs(c, model)
    conn.send(('res', i, res))


def _feasibility(c, timeout_s):
    """is assumptions /\ path satisfiable?  Infeasible paths are usually refuted by one decision plus a few
    assumptions, so every decision is first tried as the goal of a cone-of-influence relaxation."""
    base = list(c.assumptions) + list(c.path) + list(c.div_guards)
    t0 = time.time()
    for k in range(len(c.path) - 1, -1, -1):
        rest = list(c.assumptions) + list(c.path[:k]) + list(c.path[k + 1:]) + list(c.div_guards)
        for sl in _slices(rest, c.path[k]):
            if _solve(sl + [c.path[k]], 2.0)[0] == 'unsat':
                return 'unsat', None, time.time() - t0
        if time.time() - t0 > timeout_s:
            break
    r, model, dt = _check(base, timeout_s)
    return r, model, time.time() - t0


def solve_path(claim, decisions, only, timeout_s, conn, feas_mode='auto'):
    """worker body: re-execute one path, discharge its obligations, stream results.
    feas_mode: 'auto'  = decide path feasibility only when a verdict needs it (the path ends in an exception or an
                         obligation is constant-false); proved obligations do not need it;
               'always' = decide it first (vacuity stage); 'never' = skip."""
    c, h, status, info = run_path(claim, decisions)
    base = list(c.assumptions) + list(c.path)
    todo = [(i, ob) for i, ob in enumerate(c.oblig) if only is None or i in only]
    need = feas_mode == 'always' or (feas_mode == 'auto' and (
        status != 'ok' or any(z3.is_false(z3.simplify(ob[1])) for _, ob in todo)))
    msg = dict(kind='feas', result='skipped', time=0.0, status=status, info=info, nassume=len(c.assumptions),
               npath=len(c.path), notes=[str(n)[:160] for n in c.notes[:6]], lemmas=getattr(c, 'nlemmas', 0))
    feas = 'unknown'
    if need:
        conn.send(('start', 'feas'))
        r, model, dt = _feasibility(c, timeout_s)
        feas = r
        msg.update(result=r, time=dt)
        if r == 'sat':
            msg['inputs'] = _model_inputs(c, model)
    conn.send(('res', 'feas', msg))
    if feas == 'unsat':
        conn.send(('done',))
        return
    for i, ob in todo:
        _solve_obligation(c, base + c.div_guards[:c.oblig.nguards[i]], feas, msg.get('inputs'), i, ob, timeout_s, conn)
    conn.send(('done',))


def solve_path_vacuity(claim, decisions, only, timeout_s, conn):
    solve_path(claim, decisions, only, timeout_s, conn, feas_mode='always')


def _worker(target, args, conn):
    try:
        target(*args, conn)
    except BaseException as e:  # noqa: BLE001
        try:
            conn.send(('error', f'{type(e).__name__}: {e}', traceback.format_exc()[-1500:]))
        except Exception:  # noqa: BLE001
            pass
    finally:
        conn.close()


def explore_job(claim, conn):
    explore(claim, emit=lambda p: conn.send(('path', p)))
    conn.send(('paths-complete',))
    conn.send(('done',))


class Pool:
    """fork-per-job pool with a watchdog on silence (z3's own timeout is not always honoured)"""

    def __init__(self, nworkers=NWORKERS):
        self.n = nworkers
        self.active = {}   # conn -> dict(proc, job, last, deadline)
        self.ctx = mp.get_context('fork')

    def run(self, jobs, on_msg, on_kill, deadline=None, label=''):
        """jobs: iterable of (key, target, args, silence_limit_s); callbacks run in the parent.  After `deadline`
        (epoch seconds) no new job is started and running ones are killed (reported through on_kill)."""
        jobs = list(jobs)
        jobs.reverse()
        total = len(jobs)
        last_report = time.time()
        self.skipped = []
        while jobs or self.active:
            if deadline is not None and time.time() > deadline:
                self.skipped += [j[0] for j in jobs]
                jobs = []
                for conn, st in list(self.active.items()):
                    st['proc'].kill()
                    on_kill(st['key'], budget=True)
                    self._finish(conn)
                break
            if time.time() - last_report > 30:
                last_report = time.time()
                print(f'  [{label}] jobs: {total - len(jobs) - len(self.active)} done, {len(self.active)} running, {len(jobs)} queued',
                      file=sys.stderr, flush=True)
            while jobs and len(self.active) < self.n:
                key, target, args, limit = jobs.pop()
                pc, cc = self.ctx.Pipe(duplex=False)
                p = self.ctx.Process(target=_worker, args=(target, args, cc), daemon=True)
                p.start()
                cc.close()
                self.active[pc] = dict(proc=p, key=key, last=time.time(), limit=limit)
            ready = mpc.wait(list(self.active), timeout=0.5)
            now = time.time()
            for conn in ready:
                st = self.active[conn]
                try:
                    msg = conn.recv()
                except (EOFError, OSError):
                    self._finish(conn)
                    continue
                if msg[0] != 'path':        # streamed exploration results do not extend the job's time limit
                    st['last'] = now
                more = on_msg(st['key'], msg)
                if more:
                    jobs.extend(reversed(list(more)))
                if msg[0] in ('done', 'error'):
                    self._finish(conn)
            for conn, st in list(self.active.items()):
                if now - st['last'] > st['limit']:
                    st['proc'].kill()
                    more = on_kill(st['key'], budget=False)
                    if more:
                        jobs.extend(reversed(list(more)))
                    self._finish(conn)

    def _finish(self, conn):
        st = self.active.pop(conn, None)
        if st:
            st['proc'].join(timeout=5)
            if st['proc'].is_alive():
                st['proc'].kill()
            try:
                conn.close()
            except Exception:  # noqa: BLE001
                pass


# ----------------------------------------------------------------------------- replay

def write_replay(prop, claim_name, label, kind, inputs, extra=None):
    d = os.path.join(ROOT, 'replays', prop)
    os.makedirs(d, exist_ok=True)
    blob = dict(property=prop, claim=claim_name, label=label, kind=kind, inputs=inputs)
    if extra:
        blob.update(extra)
    hsh = hashlib.sha1(json.dumps(blob, sort_keys=True).encode()).hexdigest()[:10]
    safe = re.sub(r'[^A-Za-z0-9_.-]+', '_', f'{claim_name}-{label}')[:80]
    path = os.path.join(d, f'{safe}-{hsh}.json')
    with open(path, 'w') as f:
        json.dump(blob, f, indent=1)
    return path


def run_replay(path, timeout=120):
    """fresh interpreter, no shims: returns dict(reproduced=bool, violations=[...], status=...)"""
    env = dict(os.environ, PYTHONPATH=os.environ.get('VERIF_REPO', '/repo') + os.pathsep + ROOT, MPLBACKEND='Agg', PYTHONDONTWRITEBYTECODE='1')
    try:
        out = subprocess.run([PY, '-m', 'symreal.replay', path], capture_output=True, text=True, timeout=timeout, env=env, cwd=ROOT)
    except subprocess.TimeoutExpired:
        return dict(reproduced=False, status='timeout', violations=[])
    for line in out.stdout.splitlines():
        if line.startswith('REPLAY-RESULT '):
            return json.loads(line[len('REPLAY-RESULT '):])
    return dict(reproduced=False, status='replay-crash', violations=[], stderr=out.stderr[-800:])


# ----------------------------------------------------------------------------- known findings

def load_known():
    p = os.path.join(ROOT, 'known_findings.json')
    if not os.path.exists(p):
        return []
    with open(p) as f:
        return json.load(f).get('findings', [])


def match_known(known, prop, claim_name, label, detail):
    for k in known:
        if k.get('status') != 'known' or k.get('property') != prop:
            continue
        if not re.fullmatch(k['claim'], claim_name):
            continue
        if 'label' in k and not re.fullmatch(k['label'], label):
            continue
        if 'detail' in k and not re.search(k['detail'], detail or ''):
            continue
        return k
    return None


# ----------------------------------------------------------------------------- main driver

def concolic_job(claim, seed, conn):
    """translator validation, shimmed side: run the claim on Terms that carry shadow floats (branches follow the
    floats), return the inputs drawn and the values observed at every h.eq"""
    from symreal.replay import observed_values
    executed = set()

    def prof(frame, event, arg):
        if event == 'call':
            co = frame.f_code
            fn = co.co_filename
            if '/spatialmath/' in fn:
                executed.add(fn.split('/spatialmath/', 1)[1][:-3].replace('/', '.') + ':' + getattr(co, 'co_qualname', co.co_name))

    sys.setprofile(prof)
    try:
        c, h, status, info = run_path(claim, [], mode='concolic', seed=seed)
    finally:
        sys.setprofile(None)
    conn.send(('concolic', dict(status=status, info=info, inputs=h.used, observed=observed_values(h),
                                violations=[v[0] for v in h.violations], executed=sorted(executed))))
    conn.send(('done',))


NATIVE_ONLY_PROPS = {'C02', 'C03', 'C05', 'C09', 'C11', 'C16', 'C18'}


def validate_translator(prop, claims, seed, pool, max_claims=120):
    """run each (sampled) claim once through the shims concolically and once natively without shims on the same
    random inputs; compare exception status, assertion outcome and every observed value"""
    import random as _random
    sel = list(claims)
    _random.Random(seed + 1).shuffle(sel)
    sel = [c for c in sel if not c.novalidate and not c.sym_random][:max_claims]
    got = {}

    def on_msg(key, msg):
        if msg[0] == 'concolic':
            got[key] = msg[1]

    pool.run([(c.name, concolic_job, (c, seed), 120) for c in sel], on_msg, lambda key, budget=False: None, label=f'{prop} validate')
    executed = sorted(set(x for g in got.values() for x in g.get('executed', []) if not x.split(':')[1].startswith('<')))
    usable = [(n, g) for n, g in got.items() if g['status'] in ('ok', 'exc')]
    # claims whose shimmed run could not be completed (not encodable: e.g. the library forced a Term through int()) are
    # still executed natively on the inputs drawn so far (missing ones are drawn by the replayer): their assertion failures
    # on the real float code are promoted exactly like those of the compared claims, only the value comparison is skipped
    # (enabled for the checks that were run end-to-end with it on the unchanged tree; the others keep the previous behaviour)
    native_only = [(n, g) for n, g in got.items() if g['status'] not in ('ok', 'exc')] if prop in NATIVE_ONLY_PROPS else []
    blobs = [dict(property=prop, claim=n, inputs=g.get('inputs') or {}, want_observed=True) for n, g in usable + native_only]
    path = os.path.join(ROOT, 'replays', prop)
    os.makedirs(path, exist_ok=True)
    bf = os.path.join(path, '_validation_batch.json')
    json.dump(blobs, open(bf, 'w'))
    env = dict(os.environ, PYTHONPATH=os.environ.get('VERIF_REPO', '/repo') + os.pathsep + ROOT, MPLBACKEND='Agg', PYTHONDONTWRITEBYTECODE='1')
    outs = None
    try:
        p = subprocess.run([PY, '-m', 'symreal.replay', '--batch', bf], capture_output=True, text=True, timeout=900, env=env, cwd=ROOT)
        for line in p.stdout.splitlines():
            if line.startswith('BATCH-RESULT '):
                outs = json.loads(line[len('BATCH-RESULT '):])
    except subprocess.TimeoutExpired:
        pass
    rep = dict(claims_sampled=len(sel), compared=0, values_compared=0, mismatches=[], skipped=len(sel) - len(usable), native_failures=[], native_boolean_false=[],
               functions_executed=executed)
    if outs is None:
        rep['error'] = 'native batch did not finish'
        return rep
    for (n, g), o in zip(native_only, outs[len(usable):]):
        if o.get('status') in ('harness-error', 'assumption-failed'):
            continue
        rep['native_only'] = rep.get('native_only', 0) + 1
        for v in [v for v in o.get('violations', []) if str(v[1]) != 'condition false'][:2]:
            rep['native_failures'].append(dict(claim=n, label=v[0], detail=str(v[1])[:300], inputs=o.get('inputs_used') or g.get('inputs') or {}))
    for (n, g), o in zip(usable, outs):
        if o.get('status') in ('harness-error', 'assumption-failed'):
            rep['skipped'] += 1
            continue
        rep['compared'] += 1
        for v in [v for v in o.get('violations', []) if str(v[1]) == 'condition false'][:2]:
            rep['native_boolean_false'].append(f'{n}: {v[0]}')
        for v in [v for v in o.get('violations', []) if str(v[1]) != 'condition false'][:2]:
            # (boolean library predicates with eps-level internal thresholds are exact over R but not robust in floats at
            # random data: h.true failures are not promoted; value comparisons, must-raise and exceptions are)
            # an assertion of the claim failing on the real, unshimmed library at the validation inputs: a concrete candidate
            # (re-replayed and triaged like a solver counterexample)
            rep['native_failures'].append(dict(claim=n, label=v[0], detail=str(v[1])[:300], inputs=g['inputs']))
        nat_exc = any(v[0].startswith('unexpected-exception') for v in o.get('violations', []))
        if (g['status'] == 'exc') != nat_exc:
            rep['mismatches'].append(f"{n}: exception on one side only (shimmed {g['status']} {g.get('info')}, native {o.get('violations', [])[:1]})")
            continue
        nat = o.get('observed', [])
        for o1, o2 in zip(g['observed'], nat):
            (l1, v1), (l2, v2) = o1[:2], o2[:2]
            sc = max(o1[2] if len(o1) > 2 else 1.0, o2[2] if len(o2) > 2 else 1.0)     # magnitude scale stated by the claim
            if l1 != l2 or len(v1) != len(v2):
                rep['mismatches'].append(f'{n}: observation order differs at {l1!r} / {l2!r}')
                break
            for a, b in zip(v1, v2):
                if a is None or b is None:
                    continue
                rep['values_compared'] += 1
                if abs(a - b) > 1e-7 * max(1.0, abs(a), abs(b)) and abs(a - b) > 1e-9 * sc:
                    rep['mismatches'].append(f'{n}: {l1}: shimmed {a!r} vs native {b!r}')
                    break
            else:
                continue
            break
    return rep


def _not_executed(funcs, executed):
    if executed is None:
        return None
    names = set(x.split(':')[1] for x in executed)
    out = []
    for f in funcs:
        qn = getattr(f, '__qualname__', None)
        if qn and qn not in names:
            out.append(f"{getattr(f, '__module__', '')}.{qn}")
    return out


def source_hashes(funcs):
    out = {}
    for f in funcs:
        try:
            src = inspect.getsource(f)
            out[f"{f.__module__}.{f.__qualname__}"] = hashlib.sha1(src.encode()).hexdigest()[:12]
        except Exception:  # noqa: BLE001
            out[str(f)] = 'n/a'
    return out


def main(argv=None):
    ap = argparse.ArgumentParser()
    ap.add_argument('prop')
    ap.add_argument('--tier', default=os.environ.get('VERIF_TIER', 'quick'), choices=['quick', 'thorough'])
    ap.add_argument('--replay')
    ap.add_argument('--only', help='regex on claim names')
    ap.add_argument('--timeout', type=float)
    ap.add_argument('--no-evidence', action='store_true')
    ap.add_argument('--no-validate', action='store_true')
    ap.add_argument('-v', action='store_true')
    a = ap.parse_args(argv)
    prop = a.prop.upper()
    seed = int(os.environ.get('VERIF_SEED', '0') or 0)

    if a.replay:
        r = run_replay(a.replay)
        print(json.dumps(r, indent=1))
        print('REPRODUCED' if r.get('reproduced') else 'NOT-REPRODUCED')
        return 1 if r.get('reproduced') else 0

    t_start = time.time()
    hmod = importlib.import_module(f'harness.{prop.lower()}')
    shims.install()
    reg = hmod.REG
    tier = a.tier
    qto = a.timeout or getattr(hmod, 'TIMEOUT', {}).get(tier, 20 if tier == 'quick' else 120)
    claims = [c for c in reg.claims.values() if (c.tier == 'quick' or tier == 'thorough')]
    if a.only:
        claims = [c for c in claims if re.search(a.only, c.name)]
    known = load_known()
    pool = Pool()

    # ---- stage 1: exploration
    paths = {}
    errors = []

    def on_msg1(key, msg):
        if msg[0] == 'path':
            paths.setdefault(key, []).append(msg[1])
        elif msg[0] == 'error':
            errors.append((key, msg[1], msg[2]))

    def on_kill1(key, budget=False):
        # an exploration that does not finish leaves the claim undecided (reported), it is not a harness error; the paths
        # it did finish are kept and solved (each is a complete execution of the claim)
        paths.setdefault(key, []).append(dict(decisions=None, status='budget', info=dict(msg='exploration did not finish in 200 s'),
                                              labels=[], kinds=[]))

    budget = getattr(hmod, 'WALL_BUDGET', {}).get(tier, 420 if tier == 'quick' else 1500)
    if os.environ.get('VERIF_WALL_BUDGET'):
        budget = float(os.environ['VERIF_WALL_BUDGET'])
    deadline = t_start + budget
    pool.run([(c.name, explore_job, (c,), 200) for c in claims], on_msg1, on_kill1, label=f'{prop} explore')
    if errors:
        for e in errors:
            print('HARNESS-ERROR exploring', e[0], e[1], '\n', e[2])
        return 3

    # ---- stage 1b: translator validation (shims vs. the unshimmed library on the same random inputs)
    validation = None
    if not a.no_validate:
        validation = validate_translator(prop, claims, seed, pool, max_claims=120 if tier == 'quick' else 400)

    # ---- stage 2: solving
    results = {}    # (claim, pathidx) -> dict(feas=..., obl={i: res})
    jobs = []
    for c in claims:
        for pi, p in enumerate(paths[c.name]):
            if p['decisions'] is None:
                results[(c.name, pi)] = dict(feas=dict(result='n/a', status='budget', info=p['info']), obl={})
                continue
            if p['status'] == 'pruned':
                results[(c.name, pi)] = dict(feas=dict(result='unsat', status='pruned', info=None, time=0.0), obl={})
                continue
            results[(c.name, pi)] = dict(feas=None, obl={}, inflight=None)
            to = c.timeout.get(tier, qto) if isinstance(c.timeout, dict) else (c.timeout or qto)
            n = len(p['labels'])
            if c.split and n > 1:
                # feasibility once; the per-obligation jobs are queued when it is not `unsat`
                jobs.append(((c.name, pi, 'feas-only'), solve_path, (c, p['decisions'], set(), to), 2 * to + 15))
            else:
                jobs.append(((c.name, pi, None), solve_path, (c, p['decisions'], None, to), 2 * to + 15))

    def on_msg2(key, msg):
        cn, pi, _ = key
        R = results[(cn, pi)]
        if msg[0] == 'start':
            R['inflight'] = msg[1]
        elif msg[0] == 'res':
            R['inflight'] = None
            if msg[1] == 'feas':
                if R['feas'] is None or (R['feas'].get('result') != 'sat' and msg[2].get('result') != 'skipped') \
                        or R['feas'].get('result') == 'skipped':
                    R['feas'] = msg[2]
                if key[2] == 'vacuity':
                    return None
                if key[2] == 'feas-only' and msg[2]['result'] != 'unsat':
                    c = reg.claims[cn]
                    p = paths[cn][pi]
                    to = c.timeout.get(tier, qto) if isinstance(c.timeout, dict) else (c.timeout or qto)
                    return [((cn, pi, (i,)), solve_path_nofeas, (c, p['decisions'], {i}, to), 2 * to + 15)
                            for i in range(len(p['labels']))]
            else:
                R['obl'][msg[1]] = msg[2]
        elif msg[0] == 'error':
            errors.append((key, msg[1], msg[2]))

    def on_kill2(key, budget=False):
        cn, pi, only = key
        R = results[(cn, pi)]
        p = paths[cn][pi]
        c = reg.claims[cn]
        infl = R.get('inflight')
        if only == 'vacuity':
            if R['feas'] is None or R['feas'].get('result') == 'skipped':
                R['feas'] = dict(result='unknown', status=p['status'], info=p['info'], time=0.0, killed=True)
            R['inflight'] = None
            return None
        if only == 'feas-only':
            only = None
        to = c.timeout.get(tier, qto) if isinstance(c.timeout, dict) else (c.timeout or qto)
        if infl == 'feas' or infl is None:
            if R['feas'] is None:
                R['feas'] = dict(result='unknown', status=p['status'], info=p['info'], time=to, killed=True)
            # continue with the obligations anyway (unsat is sound without knowing feasibility)
        else:
            R['obl'][infl] = dict(kind=p['kinds'][infl], label=p['labels'][infl], result='unknown', time=to, killed=True)
        rest = [i for i in range(len(p['labels'])) if i not in R['obl'] and (only is None or i in only)]
        R['inflight'] = None
        if budget:
            return None
        if rest and not (infl == 'feas' and R.get('feas_killed')):
            if infl == 'feas':
                R['feas_killed'] = True
            return [((cn, pi, tuple(rest)), solve_path_nofeas, (c, p['decisions'], set(rest), to), 2 * to + 15)]
        return None

    import random as _random
    _random.Random(seed).shuffle(jobs)       # spread the heavy claims over the run (verdicts do not depend on order)
    pool.run(jobs, on_msg2, on_kill2, deadline=deadline, label=f'{prop} solve')
    budget_hit = bool(pool.skipped) or time.time() > deadline
    # ---- stage 2b: vacuity -- every claim needs one path known to be feasible (reachability twin)
    vjobs = []
    for c in claims:
        ps = paths[c.name]
        if any((results[(c.name, pi)]['feas'] or {}).get('result') == 'sat' for pi in range(len(ps))):
            continue
        okp = [pi for pi, p in enumerate(ps) if p['status'] == 'ok' and p['decisions'] is not None]
        okp.sort(key=lambda pi: len(ps[pi]['decisions']))
        okp = okp[:3] + okp[-3:] if len(okp) > 6 else okp
        to = c.timeout.get(tier, qto) if isinstance(c.timeout, dict) else (c.timeout or qto)
        for pi in dict.fromkeys(okp):
            vjobs.append(((c.name, pi, 'vacuity'), solve_path_vacuity, (c, ps[pi]['decisions'], set(), to), 2 * to + 15))
    if vjobs:
        pool.run(vjobs, on_msg2, on_kill2, deadline=max(deadline, time.time() + 60), label=f'{prop} vacuity')
    if errors:
        for e in errors:
            print('HARNESS-ERROR solving', e[0], e[1], '\n', e[2])
        return 3

    # ---- stage 3: collect candidates, replay
    cands = []     # dict(claim, path, label, kind, inputs, how)
    stats = dict(paths=0, feasible=0, infeasible=0, feas_unknown=0, obligations=0, discharged=0, trivial=0,
                 inconclusive=0, not_encodable=0, budget=0, queries=0, solver_s=0.0, tol_discharged=0)
    incon, notenc, samples = [], [], []
    per_claim = {}
    for c in claims:
        pc = per_claim[c.name] = dict(paths=0, feasible=0, obligations=0, discharged=0, inconclusive=0, candidates=0, max_t=0.0, solver_s=0.0)
        for pi, p in enumerate(paths[c.name]):
            R = results[(c.name, pi)]
            stats['paths'] += 1
            pc['paths'] += 1
            fe = R['feas'] or dict(result='unknown')
            if p['status'] == 'budget' or fe.get('status') == 'budget':
                stats['budget'] += 1
                incon.append(f'{c.name}#p{pi}: path budget exceeded')
                continue
            stats['queries'] += 1
            stats['solver_s'] += fe.get('time', 0.0)
            if fe['result'] == 'skipped':
                stats['queries'] -= 1
                stats['feas_skipped'] = stats.get('feas_skipped', 0) + 1
            if fe['result'] == 'unsat':
                stats['infeasible'] += 1
                continue
            if fe['result'] == 'sat':
                stats['feasible'] += 1
                pc['feasible'] += 1
            elif fe['result'] != 'skipped':
                stats['feas_unknown'] += 1
            if p['status'] == 'notenc':
                if fe['result'] != 'unsat':
                    stats['not_encodable'] += 1
                    notenc.append(f"{c.name}#p{pi}: {p['info']}")
            elif p['status'] == 'exc':
                stats['obligations'] += 1
                pc['obligations'] += 1
                lab = f"unexpected-exception:{p['info']['type']}@{p['info']['where']}"
                if fe['result'] == 'sat':
                    cands.append(dict(claim=c.name, path=pi, label=lab, kind='exception', inputs=fe.get('inputs', {}),
                                      how='path-feasible', info=p['info']))
                else:
                    stats['inconclusive'] += 1
                    pc['inconclusive'] += 1
                    incon.append(f'{c.name}#p{pi}: {lab} (path feasibility {fe["result"]})')
            for i, lab in enumerate(p['labels']):
                res = R['obl'].get(i)
                stats['obligations'] += 1
                pc['obligations'] += 1
                if res is None:
                    stats['inconclusive'] += 1
                    pc['inconclusive'] += 1
                    incon.append(f'{c.name}#p{pi}:{lab}: not run' + (' (wall budget)' if budget_hit else ''))
                    continue
                if res.get('how') == 'path-feasible' and res['result'] == 'unknown' and fe['result'] == 'sat':
                    res = dict(res, result='sat', inputs=fe.get('inputs'))
                if res['result'] == 'trivial':
                    stats['trivial'] += 1
                    stats['discharged'] += 1
                    pc['discharged'] += 1
                    continue
                stats['queries'] += 1
                stats['solver_s'] += res.get('time', 0.0)
                pc['max_t'] = max(pc['max_t'], res.get('time', 0.0))
                pc['solver_s'] += res.get('time', 0.0)
                if res['result'] == 'unsat':
                    stats['discharged'] += 1
                    pc['discharged'] += 1
                    if res.get('how') == 'tolerance':
                        stats['tol_discharged'] += 1
                    if len(samples) < 12 and res.get('time', 0) > 0.005:
                        samples.append(dict(claim=c.name, path=pi, obligation=lab, verdict='unsat', how=res.get('how'), solver_s=round(res['time'], 3)))
                elif res['result'] == 'sat':
                    cands.append(dict(claim=c.name, path=pi, label=lab, kind=res['kind'], inputs=res.get('inputs') or {}, how=res.get('how')))
                else:
                    stats['inconclusive'] += 1
                    pc['inconclusive'] += 1
                    incon.append(f"{c.name}#p{pi}:{lab}: unknown after {res.get('time', 0):.0f}s")

    # assertions that failed natively during translator validation (random inputs satisfying the claim's assumptions) are
    # candidates too: not produced by a solver model, confirmed by the same replay
    for nf in (validation or {}).get('native_failures', []):
        if nf['claim'] in per_claim:
            cands.append(dict(claim=nf['claim'], path=-1, label=nf['label'], kind='native', inputs=nf['inputs'], how='validation-native'))

    # replay candidates (bounded per (claim, label-root)); reproduced ones are violations
    violations, spurious, known_hit = [], [], {}
    seen_repro = {}
    groups = {}
    for cd in cands:
        root = re.sub(r'\[.*\]$', '', cd['label'])
        groups.setdefault((cd['claim'], root), []).append(cd)
    replay_jobs = []
    for (cn, root), lst in groups.items():
        for cd in lst[:3]:
            cd['replay'] = write_replay(prop, cn, cd['label'], cd['kind'], cd['inputs'], dict(how=cd.get('how'), path=cd['path']))
            replay_jobs.append(cd)
    if replay_jobs:
        from concurrent.futures import ThreadPoolExecutor
        with ThreadPoolExecutor(NWORKERS) as ex:
            outs = list(ex.map(lambda cd: run_replay(cd['replay']), replay_jobs))
        for cd, out in zip(replay_jobs, outs):
            cd['replay_out'] = out
    for (cn, root), lst in groups.items():
        pc = per_claim[cn]
        reproduced = [cd for cd in lst[:3] if cd.get('replay_out', {}).get('reproduced')]
        if reproduced:
            cd = reproduced[0]
            vio_labels = [v[0] for v in cd['replay_out'].get('violations', [])]
            detail = json.dumps(cd['replay_out'].get('violations', []))[:400]
            k = match_known(known, prop, cn, cd['label'], detail)
            pc['candidates'] += 1
            if k is not None:
                known_hit.setdefault(k['id'], (k, cd))
            else:
                violations.append(cd)
        else:
            for cd in lst:
                spurious.append(f"{cn}#p{cd['path']}:{cd['label']} ({cd.get('replay_out', {}).get('status', 'not replayed')})")
            stats['inconclusive'] += len(lst)
            pc['inconclusive'] += len(lst)
            for cd in lst[:1]:
                incon.append(f"{cn}#p{cd['path']}:{cd['label']}: sat in the R-model but replay does not reproduce ({cd.get('how')})")

    # vacuity: every claim needs at least one feasible path
    vacuous = [c.name for c in claims if per_claim[c.name]['feasible'] == 0 and per_claim[c.name]['paths'] > 0]

    wall = time.time() - t_start
    for k, cd in known_hit.values():
        print(f"KNOWN-FINDING: property={prop} {k['id']}: {k['what']} [claim {cd['claim']}, {cd['label']}]")
    for cd in violations:
        print(f"VIOLATION property={prop} replay={cd['replay']}")
        print(f"  claim={cd['claim']} obligation={cd['label']} inputs={json.dumps(cd['inputs'])[:300]}")
        print(f"  replay: {json.dumps(cd['replay_out'].get('violations', []))[:400]}")
    if a.v or True:
        print(f"[{prop} {tier}] claims={len(claims)} paths={stats['paths']} feasible={stats['feasible']} obligations={stats['obligations']} "
              f"discharged={stats['discharged']} (trivial {stats['trivial']}, tol {stats['tol_discharged']}) inconclusive={stats['inconclusive']} "
              f"not_encodable={stats['not_encodable']} spurious={len(spurious)} violations={len(violations)} known={len(known_hit)} "
              f"queries={stats['queries']} solver_s={stats['solver_s']:.1f} wall={wall:.1f}s")
        top = sorted(per_claim.items(), key=lambda kv: -kv[1]['solver_s'])[:6]
        print('  heaviest claims (solver s):', ', '.join(f"{k}={v['solver_s']:.0f}s/{v['obligations']}obl/{v['paths']}p" for k, v in top))
        for s in incon[:40]:
            print('  inconclusive:', s)
        for s in notenc[:20]:
            print('  not-encodable:', s)
        if vacuous:
            print('  NO-FEASIBLE-PATH (vacuity not excluded):', vacuous)
        if validation is not None:
            print(f"  translator validation: {validation['compared']} claims / {validation['values_compared']} values compared, "
                  f"{len(validation['mismatches'])} mismatches, {validation['skipped']} skipped")
            for nb in validation.get('native_boolean_false', [])[:10]:
                print(f'    NATIVE-BOOLEAN-FALSE (float run of a predicate that is exact over R; not a violation): {nb}')
            for mm in validation['mismatches'][:10]:
                print('    VALIDATION-MISMATCH:', mm[:300])

    if not a.no_evidence and not a.only:
        funcs = getattr(hmod, 'FUNCS', lambda: [])()
        ev = dict(
            property_id=prop, tier=tier, seed=seed, level='other', wall_s=round(wall, 2), violations=len(violations),
            coverage=dict(
                explanation=(getattr(hmod, 'EXPLANATION', '') + ' Technique: symbolic execution of the real library functions over exact reals '
                             '(Term scalars in numpy object arrays), one z3 query per (path, obligation); unsat = holds for every input of the '
                             'stated family; sat = candidate replayed on the unshimmed float code.'),
                evaluations=stats['queries'], distinct_nontrivial=stats['obligations'] - stats['trivial'],
                rule='one case = one (claim, path, obligation) triple; non-trivial = needed a solver query (not constant-folded)',
                obligations=stats['obligations'], discharged=stats['discharged'], trivially_discharged=stats['trivial'],
                discharged_with_tolerance=stats['tol_discharged'],
                inconclusive=stats['inconclusive'], inconclusive_list=incon[:200], spurious=spurious[:100],
                not_encodable=notenc[:100], paths_explored=stats['paths'], paths_feasible=stats['feasible'],
                paths_infeasible=stats['infeasible'], paths_feasibility_unknown=stats['feas_unknown'],
                paths_feasibility_not_needed=stats.get('feas_skipped', 0),
                claims=len(claims), per_claim=per_claim, no_feasible_path=vacuous,
                queries=stats['queries'], solver_seconds=round(stats['solver_s'], 2), per_query_timeout_s=qto,
                solver=f'z3 {z3.get_version_string()} (default tactic, then qfnra-nlsat)',
                functions_encoded=source_hashes(funcs),
                functions_executed=dict(note='library functions entered while the (sampled) claims ran once through the shims '
                                             '(sys.setprofile during the concolic validation run): a measured lower bound',
                                        names=(validation or {}).get('functions_executed', [])),
                declared_but_not_executed=_not_executed(funcs, (validation or {}).get('functions_executed')),
                bounds=getattr(hmod, 'BOUNDS', ''),
                translator_validation=validation,
                known_findings_matched=[k['id'] for k, _ in known_hit.values()],
                samples=samples or [dict(note='all obligations constant-folded')],
                exhaustive=False),
            assumptions=list(getattr(hmod, 'ASSUMPTIONS', [])) + shims.STUBS + [
                'R-model: exact real arithmetic; IEEE rounding, NaN/inf, signed zero are outside every claim',
                'math.pi inside trig arguments is identified with pi (error 1.2e-16)',
                'trusted base: z3, the axiom layers of symreal/core.py, numpy object-array dispatch'])
        os.makedirs(os.path.join(ROOT, 'evidence'), exist_ok=True)
        with open(os.path.join(ROOT, 'evidence', f'{prop}.json'), 'w') as f:
            json.dump(ev, f, indent=1, default=str)
    return 1 if violations else 0


def solve_path_nofeas(claim, decisions, only, timeout_s, conn):
    """re-run after a kill: skip the feasibility query"""
    c, h, status, info = run_path(claim, decisions)
    base = list(c.assumptions) + list(c.path)
    for i, ob in enumerate(c.oblig):
        if i not in only:
            continue
        _solve_obligation(c, base + c.div_guards[:c.oblig.nguards[i]], 'unknown', None, i, ob, timeout_s, conn)
    conn.send(('done',))


if __name__ == '__main__':
    sys.exit(main())
