"""Encoding-level normalisation of polynomial obligations modulo the equalities asserted in the
query (DESIGN.md 3.9).

The input families put sphere constraints into every query (s^2 + c^2 = 1 per angle atom,
a^2+b^2+c^2+d^2 = 1 per unit quaternion, r^2 = e per square root).  z3's nlsat decides identities
modulo ONE such constraint in milliseconds but gives up on products of two or three constrained
rotations (measured: `R R^T = I` for R = q2r(p) q2r(q) q2r(r): unknown @ 60 s).  Each constraint
`v^2 = rhs` is therefore also used as a rewrite rule v^2 -> rhs on the obligation before it is
handed to z3.  The rewritten formula is equivalent to the original one under the assumptions that
stay in the query, so soundness does not depend on this module being complete; z3 still gives the
verdict (on `0 != 0` when the identity normalises away)."""
from fractions import Fraction
import z3
from sympy.polys.rings import ring as _ring
from sympy.polys.domains import QQ


class TooBig(Exception):
    pass


_ARITH = {z3.Z3_OP_ADD, z3.Z3_OP_SUB, z3.Z3_OP_MUL, z3.Z3_OP_UMINUS, z3.Z3_OP_POWER, z3.Z3_OP_TO_REAL}


def _is_leaf(e):
    if z3.is_rational_value(e) or z3.is_int_value(e):
        return False
    k = e.decl().kind()
    if k in _ARITH:
        if k == z3.Z3_OP_POWER:
            ex = e.arg(1)
            return not ((z3.is_int_value(ex) or z3.is_rational_value(ex)) and ex.as_fraction().denominator == 1
                        and 0 <= ex.as_fraction().numerator <= 64)
        return False
    if k == z3.Z3_OP_DIV:
        d = e.arg(1)
        return not (z3.is_rational_value(d) or z3.is_int_value(d))
    return True


class Normalizer:
    """rules: list of (z3 var, z3 rhs expr) meaning var*var == rhs"""

    def __init__(self, rules, max_terms=60000, recips=(), budget_s=20.0):
        import time as _t
        self.deadline = _t.time() + budget_s
        # entries (v, rhs) mean v*v == rhs; entries (v, rhs, 'subst') mean v == rhs (v is replaced)
        self.substs = {r[0].get_id(): r[1] for r in rules if len(r) == 3}
        rules = [r[:2] for r in rules if len(r) == 2]
        self.rules_z3 = rules
        self.max_terms = max_terms
        self.recips = list(recips)     # (z3 var rho, z3 expr b) with rho*b == 1 and b != 0 asserted

    def _mul(self, a, b):
        """product with a work bound: sympy's multiplication is atomic, so refuse what would take minutes"""
        if len(a) * len(b) > 400000:
            raise TooBig('product too large')
        self._tick()
        return a * b

    def _tick(self):
        import time as _t
        if _t.time() > self.deadline:
            raise TooBig('time budget')

    def _collect(self, exprs):
        leaves, seen = {}, set()
        stack = list(exprs)
        while stack:
            e = stack.pop()
            i = e.get_id()
            if i in seen:
                continue
            seen.add(i)
            if z3.is_rational_value(e) or z3.is_int_value(e):
                continue
            if i in self.substs:
                stack.append(self.substs[i])
                continue
            if _is_leaf(e):
                leaves[i] = e
                continue
            stack.extend(e.children())
        return leaves

    def normal_forms(self, exprs, clear_den=False, want_exprs=True):
        """list of (z3 expr, is_zero flag), one shared ring.  Without clear_den each output equals its input
        under the rules; with clear_den it is the input multiplied by a product of (non-zero) divisors, so only
        `== 0` is preserved."""
        rule_exprs = [v for v, _ in self.rules_z3] + [r for _, r in self.rules_z3]
        if clear_den:
            rule_exprs += [v for v, _ in self.recips] + [b for _, b in self.recips]
        leaves = self._collect(list(exprs) + rule_exprs)
        if not leaves:
            return [(e, False) for e in exprs]
        ids = sorted(leaves)
        names = [f'g{k}' for k in range(len(ids))]
        R, *gens = _ring(names, QQ)
        gen_of = {i: g for i, g in zip(ids, gens)}
        idx_of = {i: k for k, i in enumerate(ids)}
        memo = {}
        rules = []       # (generator index, rhs poly)
        rpow = {}

        def rhs_pow(ri, k):
            key = (ri, k)
            if key not in rpow:
                rpow[key] = rules[ri][1] if k == 1 else reduce(self._mul(rhs_pow(ri, k - 1), rules[ri][1]))
            return rpow[key]

        def reduce(p):
            if not rules:
                return p
            while True:
                keep, groups = {}, {}
                for mon, coeff in p.items():
                    for ri, (vi, _) in enumerate(rules):
                        if mon[vi] >= 2:
                            k = mon[vi] // 2
                            m2 = mon[:vi] + (mon[vi] - 2 * k,) + mon[vi + 1:]
                            g = groups.setdefault((ri, k), {})
                            g[m2] = g.get(m2, 0) + coeff
                            break
                    else:
                        keep[mon] = coeff
                if not groups:
                    return p
                self._tick()
                out = R.from_dict(keep)
                for (ri, k), g in groups.items():
                    out = out + self._mul(R.from_dict({m: c for m, c in g.items() if c}), rhs_pow(ri, k))
                p = out
                if len(p) > self.max_terms:
                    raise TooBig(len(p))

        def conv(e):
            i = e.get_id()
            if i in memo:
                return memo[i]
            if z3.is_rational_value(e) or z3.is_int_value(e):
                f = e.as_fraction()
                r = R(QQ(f.numerator, f.denominator))
            elif i in self.substs:
                r = conv(self.substs[i])
            elif i in gen_of:
                r = gen_of[i]
            else:
                k = e.decl().kind()
                ch = e.children()
                if k == z3.Z3_OP_ADD:
                    r = R(0)
                    for c in ch:
                        r = r + conv(c)
                elif k == z3.Z3_OP_SUB:
                    r = conv(ch[0])
                    for c in ch[1:]:
                        r = r - conv(c)
                elif k == z3.Z3_OP_UMINUS:
                    r = -conv(ch[0])
                elif k == z3.Z3_OP_TO_REAL:
                    r = conv(ch[0])
                elif k == z3.Z3_OP_MUL:
                    r = R(1)
                    for c in ch:
                        r = reduce(self._mul(r, conv(c)))
                elif k == z3.Z3_OP_POWER:
                    n = ch[1].as_fraction().numerator
                    b = conv(ch[0])
                    r = R(1)
                    for _ in range(n):
                        r = reduce(self._mul(r, b))
                elif k == z3.Z3_OP_DIV:
                    f = ch[1].as_fraction()
                    r = conv(ch[0]) * R(QQ(f.denominator, f.numerator))
                else:
                    raise TooBig('unexpected node')
            if len(r) > self.max_terms:
                raise TooBig(len(r))
            self._tick()
            memo[i] = r
            return r

        for v, rhs in self.rules_z3:
            vi = idx_of.get(v.get_id())
            if vi is None:
                continue
            rules.append((vi, conv(rhs)))

        recs = []
        if clear_den:
            for rho, b in self.recips:
                ri = idx_of.get(rho.get_id())
                if ri is not None:
                    recs.append((ri, reduce(conv(b))))

        def clear(p):
            for ri, B in recs:
                d = max((mon[ri] for mon in p), default=0)
                if d == 0:
                    continue
                bp = {0: R(1)}
                for k in range(1, d + 1):
                    bp[k] = reduce(self._mul(bp[k - 1], B))
                groups = {}
                for mon, coeff in p.items():
                    k = mon[ri]
                    g = groups.setdefault(d - k, {})
                    g[mon[:ri] + (0,) + mon[ri + 1:]] = coeff
                q = R(0)
                for e, g in groups.items():
                    self._tick()
                    q = q + reduce(self._mul(R.from_dict(g), bp[e]))
                p = reduce(q)
                if len(p) > self.max_terms:
                    raise TooBig(len(p))
            return p

        out = []
        for expr in exprs:
            p = reduce(conv(expr))
            if clear_den and recs and p != 0:
                p = clear(p)
            if p == 0:
                out.append((z3.RealVal(0), True))
                continue
            if not want_exprs:
                out.append((None, False))
                continue
            terms = []
            for mon, coeff in p.items():
                t = z3.RealVal(f'{coeff.numerator}/{coeff.denominator}')
                for k, ex in enumerate(mon):
                    for _ in range(ex):
                        t = t * leaves[ids[k]]
                terms.append(t)
            out.append((z3.Sum(terms) if len(terms) > 1 else terms[0], False))
        return out

    def normal_form(self, expr):
        return self.normal_forms([expr])[0]



def normalize_eq(rules, lhs, rhs, max_terms=60000, recips=()):
    """z3 formula equivalent (under the rules) to lhs == rhs, and whether it normalised to True"""
    try:
        nf, zero = Normalizer(rules, max_terms, recips).normal_forms([lhs - rhs], clear_den=bool(recips))[0]
    except TooBig:
        return None, False
    if zero:
        return z3.BoolVal(True), True
    return nf == 0, False


def which_zero(rules, exprs, max_terms=20000, recips=()):
    """index of the first expression that normalises to 0, else None"""
    return _which_zero(rules, exprs, max_terms, recips)


def _which_zero(rules, exprs, max_terms=20000, recips=()):
    try:
        res = Normalizer(rules, max_terms, recips, budget_s=5.0).normal_forms(exprs, clear_den=bool(recips), want_exprs=False)
    except TooBig:
        return None
    for k, (_, z) in enumerate(res):
        if z:
            return k
    return None


def exact_quotient(rules, a, b, max_terms=5000):
    """z3 expr q with a == q*b identically (after rewriting by the rules), or None"""
    nz = Normalizer(rules, max_terms)
    rule_exprs = []
    try:
        leaves = nz._collect([a, b] + rule_exprs)
        if not leaves or len(leaves) > 40:
            return None
        ids = sorted(leaves)
        R, *gens = _ring([f'g{k}' for k in range(len(ids))], QQ)
        gen_of = {i: g for i, g in zip(ids, gens)}

        memo = {}

        def conv(e):
            i = e.get_id()
            if i in memo:
                return memo[i]
            if z3.is_rational_value(e) or z3.is_int_value(e):
                f = e.as_fraction()
                r = R(QQ(f.numerator, f.denominator))
            elif i in gen_of:
                r = gen_of[i]
            else:
                k = e.decl().kind()
                ch = e.children()
                if k == z3.Z3_OP_ADD:
                    r = R(0)
                    for c in ch:
                        r = r + conv(c)
                elif k == z3.Z3_OP_SUB:
                    r = conv(ch[0])
                    for c in ch[1:]:
                        r = r - conv(c)
                elif k == z3.Z3_OP_UMINUS:
                    r = -conv(ch[0])
                elif k == z3.Z3_OP_TO_REAL:
                    r = conv(ch[0])
                elif k == z3.Z3_OP_MUL:
                    r = R(1)
                    for c in ch:
                        r = r * conv(c)
                elif k == z3.Z3_OP_POWER:
                    r = conv(ch[0]) ** ch[1].as_fraction().numerator
                elif k == z3.Z3_OP_DIV:
                    f = ch[1].as_fraction()
                    r = conv(ch[0]) * R(QQ(f.denominator, f.numerator))
                else:
                    raise TooBig('node')
            if len(r) > max_terms:
                raise TooBig(len(r))
            memo[i] = r
            return r

        pa, pb = conv(a), conv(b)
        if pb == 0 or len(pb) > 50:
            return None
        q, rem = pa.div(pb)
        if rem != 0:
            return None
        terms = []
        for mon, coeff in q.items():
            t = z3.RealVal(f'{coeff.numerator}/{coeff.denominator}')
            for k, ex in enumerate(mon):
                for _ in range(ex):
                    t = t * leaves[ids[k]]
            terms.append(t)
        if not terms:
            return z3.RealVal(0)
        return z3.Sum(terms) if len(terms) > 1 else terms[0]
    except TooBig:
        return None
