"""symreal core: a real-arithmetic symbolic scalar (`Term`) that rides through numpy
object arrays, symbolic booleans whose truth value forks the path explorer, and the
axiomatisation of the transcendental functions handed to the SMT solver (DESIGN.md §3).

A `Term` wraps a z3 real expression (`e`).  Optional extras:
  lin : affine form over angle atoms {atom_name: Fraction}, const Fraction -- lets sin/cos of
        sums, negations and integer multiples be expanded by the addition formulas;
  val : concrete shadow value (float) -- only in *concolic* mode (translator validation).
"""
import math as _math
from fractions import Fraction
import numpy as _np
import z3

PI = Fraction(_math.pi)            # the double math.pi, exactly
EPS = Fraction(2) ** -52


def rv(x):
    """exact z3 RealVal of an int / float / Fraction"""
    if isinstance(x, (bool, _np.bool_)):
        raise TypeError('bool in arithmetic')
    if isinstance(x, (int, _np.integer)):
        return z3.RealVal(int(x))
    if isinstance(x, (float, _np.floating)):
        x = float(x)
        if x != x or x in (float('inf'), float('-inf')):
            raise NotEncodable('non-finite float constant')
        f = Fraction(x)
        return z3.RealVal(f"{f.numerator}/{f.denominator}") if f.denominator != 1 else z3.RealVal(f.numerator)
    if isinstance(x, Fraction):
        return z3.RealVal(f"{x.numerator}/{x.denominator}") if x.denominator != 1 else z3.RealVal(x.numerator)
    raise TypeError(f'cannot lift {type(x).__name__}')


def zpi():
    return rv(PI)


class NotEncodable(Exception):
    """the code under test did something the R-model cannot express on this path"""


class PathBudget(BaseException):
    pass


class PrunedPath(BaseException):
    """the decision just flipped by the explorer is refuted by the solver: the whole subtree is infeasible"""


# --------------------------------------------------------------------------- context

class _Obligations(list):
    """obligation list that remembers how many division guards (`divisor != 0`, asserted for the code AFTER a
    division) existed when each obligation was recorded: a guard must not be assumed for the obligation that checks it
    nor for anything recorded before it"""

    def __init__(self, ctx_):
        super().__init__()
        self.ctx_ = ctx_
        self.nguards = []

    def append(self, ob):
        super().append(ob)
        self.nguards.append(len(self.ctx_.div_guards))


class Ctx:
    """one execution of the code under test along one decision prefix"""
    cur = None
    prune_check = None      # set by the runner: fn(ctx) -> True when assumptions /\ path is refuted quickly

    def __init__(self, decisions=(), concolic=False, values=False):
        self.assumptions = []      # z3 bools: input family + definitional axioms (true facts)
        self.decisions = list(decisions)
        self.pos = 0
        self.path = []             # z3 bools decided along this run
        self.known = {}            # ast id -> bool already decided on this path
        self.div_guards = []       # z3 bools `divisor != 0`, in execution order
        self.oblig = _Obligations(self)      # (label, z3 bool, kind, relaxed z3 bool or None[, (lhs, rhs, tol)])
        self.nfresh = 0
        self.atoms = {}            # atom name -> (v, s, c) z3 reals
        self.atom_meta = {}        # atom name -> dict(kind=..., range=(lo,hi))
        self.opaque = {}           # key -> (Term value, Term s, Term c)
        self.sqrt_memo = {}
        self.div_memo = {}
        self.notes = []
        self.inputs = []           # (name, kind, z3 var[, s, c])
        self.concolic = concolic
        self.values = values       # A2 layer: constrain angle values
        self.max_decisions = 200
        self.prune_at = None
        self.recips = []           # (z3 var rho, z3 expr b): rho*b == 1 asserted, b != 0 on the path
        self.rules = []            # (z3 var v, z3 rhs): v*v == rhs is asserted; used as rewrite rule (poly.py)
        self.mods = 0

    def fresh(self, name, sort='real'):
        self.nfresh += 1
        nm = f"{name}!{self.nfresh}"
        return z3.Int(nm) if sort == 'int' else z3.Real(nm)

    def assume(self, *conds):
        for c in conds:
            if isinstance(c, SBool):
                c = c.e
            self.assumptions.append(c)

    def branch(self, cond, val=None):
        """decide a symbolic condition: constant-fold, reuse an earlier decision on the same
        condition, else follow the prefix / default True."""
        if self.concolic:
            if val is None:
                raise NotEncodable('concolic branch without value')
            return bool(val)
        cond = z3.simplify(cond)
        if z3.is_true(cond):
            return True
        if z3.is_false(cond):
            return False
        k = cond.get_id()
        if k in self.known:
            return self.known[k][0]
        folded = self._fold_by_normal_form(cond)
        if folded is not None:
            self.known[k] = (folded, cond)
            return folded
        if self.pos < len(self.decisions):
            d = self.decisions[self.pos]
        else:
            if self.pos >= self.max_decisions:
                raise PathBudget('too many decisions on one path')
            d = True
            self.decisions.append(True)
        at_flip = (self.prune_at is not None and self.pos == self.prune_at)
        self.pos += 1
        neg = z3.simplify(z3.Not(cond))
        # the ASTs are stored with the decision: a live reference keeps z3 from reusing the id
        self.known[k] = (d, cond)
        self.known[neg.get_id()] = (not d, neg)
        self.path.append(cond if d else neg)
        if at_flip and Ctx.prune_check is not None and Ctx.prune_check(self):
            raise PrunedPath()
        return d

    def _fold_by_normal_form(self, cond):
        """a comparison whose two sides differ by a constant modulo the asserted sphere constraints
        (e.g. det(R R^T) > 0 for a product of rotations) is decided without forking"""
        if not self.rules or not z3.is_app(cond):
            return None
        neg = False
        c = cond
        if z3.is_not(c):
            neg, c = True, c.arg(0)
        kind = c.decl().kind()
        ops = {z3.Z3_OP_LE: lambda d: d <= 0, z3.Z3_OP_GE: lambda d: d >= 0, z3.Z3_OP_LT: lambda d: d < 0,
               z3.Z3_OP_GT: lambda d: d > 0, z3.Z3_OP_EQ: lambda d: d == 0}
        if kind not in ops or c.num_args() != 2 or not z3.is_arith(c.arg(0)):
            return None
        from .poly import Normalizer, TooBig
        try:
            nf, zero = Normalizer(self.rules, 80000, budget_s=8.0).normal_form(c.arg(0) - c.arg(1))
        except TooBig:
            return None
        nf = z3.simplify(nf)
        if not z3.is_rational_value(nf):
            return None
        r = bool(ops[kind](nf.as_fraction()))
        self.nlemmas = getattr(self, 'nlemmas', 0) + 1
        return (not r) if neg else r

    def require(self, label, cond, kind='claim'):
        if isinstance(cond, SBool):
            cond = cond.e
        elif isinstance(cond, (bool, _np.bool_)):
            cond = z3.BoolVal(bool(cond))
        self.oblig.append((label, cond, kind, None))


def ctx():
    c = Ctx.cur
    if c is None:
        raise RuntimeError('no symreal context active')
    return c


# --------------------------------------------------------------------------- booleans

class SBool:
    __slots__ = ('e', 'val')

    def __init__(self, e, val=None):
        self.e = e
        self.val = val

    def __bool__(self):
        return ctx().branch(self.e, self.val)

    @staticmethod
    def _lift(o):
        if isinstance(o, SBool):
            return o
        if isinstance(o, (bool, _np.bool_)):
            return SBool(z3.BoolVal(bool(o)), bool(o))
        return None

    def __and__(self, o):
        o = SBool._lift(o)
        if o is None:
            return NotImplemented
        return SBool(z3.And(self.e, o.e), None if self.val is None or o.val is None else (self.val and o.val))
    __rand__ = __and__

    def __or__(self, o):
        o = SBool._lift(o)
        if o is None:
            return NotImplemented
        return SBool(z3.Or(self.e, o.e), None if self.val is None or o.val is None else (self.val or o.val))
    __ror__ = __or__

    def __invert__(self):
        return SBool(z3.Not(self.e), None if self.val is None else (not self.val))

    def __repr__(self):
        return f"SBool({z3.simplify(self.e)})"


def sand(*xs):
    out = None
    for x in xs:
        x = SBool._lift(x)
        out = x if out is None else (out & x)
    return out


# --------------------------------------------------------------------------- affine forms

def _num(x):
    if isinstance(x, Term):
        return x.const
    if isinstance(x, (bool, _np.bool_)):
        return None
    if isinstance(x, (int, _np.integer)):
        return Fraction(int(x))
    if isinstance(x, (float, _np.floating)):
        x = float(x)
        if x != x or x in (float('inf'), float('-inf')):
            return None
        return Fraction(x)
    if isinstance(x, Fraction):
        return x
    return None


def _lin(x):
    if isinstance(x, Term):
        if x.lin is not None:
            return x.lin
        if x.const is not None:
            return ({}, x.const)
        return None
    n = _num(x)
    return None if n is None else ({}, n)


def _ladd(a, b, sign=1):
    if a is None or b is None:
        return None
    d = dict(a[0])
    for k, v in b[0].items():
        d[k] = d.get(k, 0) + sign * v
        if d[k] == 0:
            del d[k]
    return (d, a[1] + sign * b[1])


def _lscale(a, k):
    if a is None or k is None:
        return None
    if k == 0:
        return ({}, Fraction(0))
    return ({n: v * k for n, v in a[0].items()}, a[1] * k)


def _fval(x):
    if isinstance(x, Term):
        return x.val
    if isinstance(x, Fraction):
        return float(x)
    return float(x)


# --------------------------------------------------------------------------- Term

class Term:
    __slots__ = ('e', 'lin', 'val', 'const')
    # numpy must treat a Term as an opaque python object; no __float__/__index__ on purpose

    def __init__(self, e, lin=None, val=None, const=None):
        self.e = e
        self.lin = lin
        self.val = val
        self.const = const      # exact Fraction when the Term is a known constant

    @staticmethod
    def lift(x):
        if isinstance(x, Term):
            return x
        n = _num(x)
        if n is None:
            return None
        return Term(rv(n), ({}, n), float(n), n)

    # -- arithmetic
    def _bin(self, o, op, rev=False):
        ot = Term.lift(o)
        if ot is None:
            return NotImplemented
        a, b = (ot, self) if rev else (self, ot)
        return _arith(a, b, op)

    def __add__(self, o): return self._bin(o, '+')
    def __radd__(self, o): return self._bin(o, '+', True)
    def __sub__(self, o): return self._bin(o, '-')
    def __rsub__(self, o): return self._bin(o, '-', True)
    def __mul__(self, o): return self._bin(o, '*')
    def __rmul__(self, o): return self._bin(o, '*', True)
    def __truediv__(self, o): return self._bin(o, '/')
    def __rtruediv__(self, o): return self._bin(o, '/', True)

    def __neg__(self):
        if self.const is not None:
            return Term.lift(-self.const)
        return Term(-self.e, _lscale(self.lin, -1), None if self.val is None else -self.val)

    def __pos__(self):
        return self

    def __pow__(self, n):
        if isinstance(n, Term) and n.const is not None:
            n = n.const
        if isinstance(n, (float, _np.floating, Fraction)) and float(n) == int(n):
            n = int(n)
        if isinstance(n, (int, _np.integer)):
            n = int(n)
            if n >= 0:
                r = 1
                for _ in range(n):
                    r = self * r
                return r if isinstance(r, Term) else Term.lift(r)
            return 1 / (self ** (-n))
        if isinstance(n, (float, _np.floating, Fraction)) and float(n) == 0.5:
            return self.sqrt()
        if Term.lift(n) is None and not isinstance(n, Term):
            return NotImplemented      # non-numeric exponent: let Python try the reflected operator / raise TypeError
        raise NotEncodable('non-integer power')

    def __rpow__(self, o):
        raise NotEncodable('constant ** Term')

    def __abs__(self):
        if self.const is not None:
            return Term.lift(abs(self.const))
        return Term(z3.If(self.e >= 0, self.e, -self.e), None, None if self.val is None else abs(self.val))

    def __mod__(self, m):
        return _mod(self, m)

    def __rmod__(self, o):
        raise NotEncodable('constant % Term')

    # -- comparisons
    def _cmp(self, o, op):
        ot = Term.lift(o)
        if ot is None:
            return NotImplemented
        a, b = self, ot
        v = None
        if a.val is not None and b.val is not None:
            v = {'<': a.val < b.val, '<=': a.val <= b.val, '>': a.val > b.val, '>=': a.val >= b.val,
                 '==': a.val == b.val, '!=': a.val != b.val}[op]
        e = {'<': a.e < b.e, '<=': a.e <= b.e, '>': a.e > b.e, '>=': a.e >= b.e,
             '==': a.e == b.e, '!=': a.e != b.e}[op]
        return SBool(e, v)

    def __lt__(self, o): return self._cmp(o, '<')
    def __le__(self, o): return self._cmp(o, '<=')
    def __gt__(self, o): return self._cmp(o, '>')
    def __ge__(self, o): return self._cmp(o, '>=')

    def __eq__(self, o):
        return self._cmp(o, '==')        # NotImplemented for foreign operands, like float (reflected method, then identity)

    def __ne__(self, o):
        return self._cmp(o, '!=')

    __hash__ = None

    def __bool__(self):
        # truthiness of a float: x != 0 (`if not y:` in library code must see y == 0)
        if self.const is not None:
            return self.const != 0
        return bool(self._cmp(0, '!='))

    def __repr__(self):
        if self.const is not None:
            return f"T({float(self.const)!r})"
        s = str(z3.simplify(self.e))
        return f"T({s if len(s) < 80 else s[:77] + '...'})"

    # -- methods numpy's object loops call
    def sqrt(self): return _sqrt(self)
    def sin(self): return _sin(self)
    def cos(self): return _cos(self)
    def tan(self): return _tan(self)
    def arccos(self): return _acos(self)
    def arcsin(self): return _asin(self)
    def arctan(self): return _atan(self)
    def arctan2(self, x): return _atan2(self, x)
    def exp(self): return _exp(self)
    def log(self): return _log(self)
    def conjugate(self): return self

    @property
    def real(self): return self

    @property
    def imag(self): return 0
    def __round__(self, n=None): raise NotEncodable('round(Term)')


def _arith(a, b, op):
    ac, bc = a.const, b.const
    if ac is not None and bc is not None:
        if op == '+': return Term.lift(ac + bc)
        if op == '-': return Term.lift(ac - bc)
        if op == '*': return Term.lift(ac * bc)
        if bc == 0:
            raise ZeroDivisionError('float division by zero')
        return Term.lift(ac / bc)
    va, vb = a.val, b.val
    has = va is not None and vb is not None
    if op == '+':
        if ac == 0: return b
        if bc == 0: return a
        return Term(a.e + b.e, _ladd(_lin(a), _lin(b)), va + vb if has else None)
    if op == '-':
        if bc == 0: return a
        if ac == 0: return -b
        return Term(a.e - b.e, _ladd(_lin(a), _lin(b), -1), va - vb if has else None)
    if op == '*':
        if ac == 0 or bc == 0: return Term.lift(0)
        if ac == 1: return b
        if bc == 1: return a
        if ac == -1: return -b
        if bc == -1: return -a
        lin = _lscale(_lin(b), ac) if ac is not None else (_lscale(_lin(a), bc) if bc is not None else None)
        return Term(a.e * b.e, lin, va * vb if has else None)
    # division
    if bc is not None:
        if bc == 0:
            raise ZeroDivisionError('float division by zero')
        if bc == 1: return a
        return Term(a.e * rv(1 / bc), _lscale(_lin(a), 1 / bc), va / vb if has else None)
    if ac == 0:
        # 0 / b : still a division; record the obligation but value is 0
        _divcheck(b)
        return Term.lift(0)
    return _div(a, b)


def _divcheck(b):
    c = ctx()
    if c.concolic:
        if b.val == 0:
            raise ZeroDivisionError('float division by zero')
        return
    c.require('div-by-zero', b.e != 0, 'div0')
    # the code after the division runs under b != 0 (a feasible zero divisor is reported through the obligation above)
    c.div_guards.append(b.e != 0)


def _const_resolve(c, b, cands=(1, -1)):
    """solver-validated lemma: is the Term provably equal to one of a few constants on this path?"""
    key = ('const', b.e.get_id())
    if key in c.div_memo:
        return c.div_memo[key][0]
    out = None
    from .poly import normalize_eq
    from .poly import which_zero
    kz = which_zero(c.rules, [b.e - rv(k) for k in cands], recips=c.recips)
    if kz is not None:
        c.div_memo[key] = (cands[kz], b.e)
        c.notes.append(('divisor-resolved-nf', cands[kz]))
        return cands[kz]
    for k in (cands if getattr(c, 'lemma_solver', False) else ()):
        s = z3.Solver()
        s.set('timeout', 500)
        s.add(*c.assumptions)
        s.add(*c.path)
        s.add(*c.div_guards)
        s.add(b.e != k)
        if str(s.check()) == 'unsat':
            out = k
            c.nlemmas = getattr(c, 'nlemmas', 0) + 1
            c.notes.append(('divisor-resolved', k))
            break
    c.div_memo[key] = (out, b.e)
    return out


def _div(a, b):
    c = ctx()
    if not c.concolic:
        k = _const_resolve(c, b)
        if k is not None:
            return a * k          # 1/k == k for k in {1, -1}
    _divcheck(b)
    if c.concolic:
        return Term(a.e / b.e, None, a.val / b.val)
    key = (a.e.get_id(), b.e.get_id())
    if key not in c.div_memo:
        from .poly import exact_quotient
        qz = exact_quotient(c.rules, a.e, b.e)
        if qz is not None:
            # a == quotient * b as polynomials (modulo the asserted constraints) and b != 0 on this path
            c.div_memo[key] = (qz, a.e, b.e)
            c.notes.append(('division-cancelled',))
    if key not in c.div_memo:
        # reciprocal encoding: one fresh rho per distinct divisor (rho*b == 1), a/b = a*rho; the components of
        # v/|v| then share a single extra variable instead of one quotient variable each
        rk = ('recip', b.e.get_id())
        if rk not in c.div_memo:
            rho = c.fresh('rcp')
            # conditional: an unconditional rho*b == 1 would silently assert b != 0 for the whole path
            c.assumptions.append(z3.Implies(b.e != 0, rho * b.e == 1))
            c.recips.append((rho, b.e))
            c.div_memo[rk] = (rho, b.e)
        c.div_memo[key] = (a.e * c.div_memo[rk][0], a.e, b.e)
    return Term(c.div_memo[key][0])


def _mod(x, m):
    """x % m, constant m > 0, python/numpy sign convention: result in [0, m)"""
    mt = Term.lift(m)
    if mt is None or mt.const is None or mt.const <= 0:
        raise NotEncodable('mod by non-constant')
    c = ctx()
    if x.const is not None:
        return Term.lift(x.const % mt.const)
    if c.concolic:
        return Term(x.e, None, x.val % float(mt.const))
    k = c.fresh('modk', 'int')
    r = c.fresh('modr')
    c.assumptions += [x.e == z3.ToReal(k) * mt.e + r, r >= 0, r < mt.e]
    c.mods += 1
    c.modk = getattr(c, 'modk', []) + [k]
    return Term(r)


# --------------------------------------------------------------------------- sqrt

def _sqrt(x):
    if not isinstance(x, Term):
        return _math.sqrt(x)
    c = ctx()
    if x.const is not None:
        if x.const < 0:
            raise ValueError('math domain error')
        # exact rational roots stay exact; others become the double sqrt (what the code computes)
        n, d = x.const.numerator, x.const.denominator
        rn, rd = _math.isqrt(n), _math.isqrt(d)
        if rn * rn == n and rd * rd == d:
            return Term.lift(Fraction(rn, rd))
    if c.concolic:
        if x.val < 0:
            raise ValueError('math domain error')
        return Term(x.e, None, _math.sqrt(x.val))
    xs = z3.simplify(x.e)
    key = xs.get_id()
    if key in c.sqrt_memo:
        return c.sqrt_memo[key][0]
    # radicands that normalise to a perfect square need no domain fork and no fresh variable
    res = _sqrt_resolve(c, x, use_solver=False)
    if res is None:
        if not (_is_sos(x.e) or _is_sos(xs)) and (x < 0):
            raise ValueError('math domain error')
        res = _sqrt_resolve(c, x, use_solver=True)
    if res is None:
        r = c.fresh('sqrt')
        c.assumptions += [r >= 0, r * r == x.e]
        c.rules.append((r, x.e))
        res = Term(r)
        _unify_earlier_sqrts(c, r)
        c.fresh_sqrts = getattr(c, 'fresh_sqrts', []) + [(r, x.e)]
    c.sqrt_memo[key] = (res, xs)
    return res


def _unify_earlier_sqrts(c, rnew):
    """an earlier square root whose radicand equals (rnew * r_j)^2 (e.g. |a x n| once |a| is known, a _|_ n) is
    identified with that product: the equality is a consequence (all roots are >= 0) and is both asserted and
    used as a substitution by the normaliser"""
    from .poly import which_zero
    prev = list(getattr(c, 'fresh_sqrts', []))
    done = {r[0].get_id() for r in c.rules if len(r) == 3}
    for k, (rk, ek) in enumerate(prev):
        if rk.get_id() in done:
            continue
        cands = [rnew] + [rnew * rj for j, (rj, _) in enumerate(prev) if j != k and rj.get_id() not in done]
        z = which_zero(c.rules, [ek - g * g for g in cands], recips=())
        if z is not None:
            c.assumptions.append(rk == cands[z])
            c.rules.append((rk, cands[z], 'subst'))
            c.notes.append(('sqrt-unified', str(rk), str(cands[z])))
            c.nlemmas = getattr(c, 'nlemmas', 0) + 1


def _is_sos(e):
    """syntactic sum of squares (what norm() builds): no domain fork needed for its square root"""
    def sq(t):
        if z3.is_rational_value(t) or z3.is_int_value(t):
            return t.as_fraction() >= 0
        if not z3.is_app(t):
            return False
        k = t.decl().kind()
        ch = t.children()
        if k == z3.Z3_OP_MUL:
            nums = [x for x in ch if z3.is_rational_value(x) or z3.is_int_value(x)]
            rest = [x for x in ch if not (z3.is_rational_value(x) or z3.is_int_value(x))]
            if any(n.as_fraction() < 0 for n in nums):
                return False
            if len(rest) == 2 and rest[0].eq(rest[1]):
                return True
            return len(rest) == 1 and sq(rest[0])
        if k == z3.Z3_OP_POWER:
            ex = ch[1]
            return (z3.is_rational_value(ex) or z3.is_int_value(ex)) and ex.as_fraction().denominator == 1 and ex.as_fraction().numerator % 2 == 0
        if k == z3.Z3_OP_ADD:
            return all(sq(x) for x in ch)
        return False
    return sq(e)


def _abs_resolved(c, g):
    """|g| without an If when the sign of g is provable on this path"""
    if g.const is not None:
        return abs(g)
    for sign, neg in ((1, g.e < 0), (-1, g.e > 0)):
        s = z3.Solver()
        s.set('timeout', 1000)
        s.add(*c.assumptions)
        s.add(*c.path)
        s.add(*c.div_guards)
        s.add(neg)
        if str(s.check()) == 'unsat':
            return g if sign == 1 else -g
    return abs(g)


def _sqrt_resolve(c, x, use_solver=True):
    """sqrt resolution by solver-validated lemmas (DESIGN 3.5): for each hint g (the constant 1 and
    the Terms the harness registered), if z3 proves radicand == g*g under the assumptions and the path
    so far, the result is |g| -- no fresh variable, no nested square root for the later queries.
    A hint that is not proved (sat/unknown within 2 s) is simply not used."""
    from .poly import normalize_eq
    hints = [Term.lift(1), Term.lift(0)] + list(getattr(c, 'sqrt_hints', []))
    if not use_solver:
        # does the radicand normalise to g*g modulo the asserted sphere constraints?  Candidates: the harness
        # hints, 0, 1, earlier square roots and their pairwise products (|a x n| = |a||n| for a _|_ n)
        from .poly import which_zero
        prev = [v[0] for v in c.sqrt_memo.values() if isinstance(v[0], Term) and v[0].const is None]
        prev = prev + [Term(e) for (e, _t) in getattr(c, 'exps', [])]      # exp(t) > 0 is a root candidate too
        for (_v, sa, ca) in list(c.atoms.values())[:8]:
            prev = prev + [Term(sa), Term(ca)]                              # |sin a|, |cos a| (e.g. |vex(R - R^T)| / 2)
        hints = hints + prev + [prev[i] * prev[j] for i in range(len(prev)) for j in range(i, len(prev))]
        for nm_, (va, _sa, _ca) in list(c.atoms.items())[:8]:
            ta = Term(va, ({nm_: Fraction(1)}, Fraction(0)))
            hints = hints + [ta, ta * 2]       # |theta u| = |theta| for a unit u; theta = twice a half-angle atom
        k = which_zero(c.rules, [x.e - g.e * g.e for g in hints], recips=c.recips)
        if k is not None:
            c.notes.append(('sqrt-resolved-nf', str(hints[k])[:60]))
            c.nlemmas = getattr(c, 'nlemmas', 0) + 1
            return _abs_resolved(c, hints[k])
        return None
    # the solver stage is reserved for hints the harness registered explicitly
    for g in list(getattr(c, 'sqrt_hints', [])):
        s = z3.Solver()
        s.set('timeout', 2000)
        s.add(*c.assumptions)
        s.add(*c.path)
        s.add(*c.div_guards)
        s.add(x.e != g.e * g.e)
        if str(s.check()) == 'unsat':
            c.notes.append(('sqrt-resolved', str(g)[:60]))
            c.nlemmas = getattr(c, 'nlemmas', 0) + 1
            return _abs_resolved(c, g)
    return None


# --------------------------------------------------------------------------- angles

def new_atom(name, kind='input', lo=None, hi=None, val=None, pair=None):
    """a real variable v with its (sin, cos) pair; returns (Term v, Term s, Term c).  With `pair` (two z3
    expressions) the atom is an alias: its sine and cosine ARE those expressions (no fresh variables)."""
    c = ctx()
    v = c.fresh(name)
    if pair is not None:
        s, co = pair
    else:
        s = c.fresh('sin')
        co = c.fresh('cos')
        c.assumptions.append(s * s + co * co == 1)
        c.assumptions += [s >= -1, s <= 1, co >= -1, co <= 1]
        c.rules.append((s, 1 - co * co))
    nm = str(v)
    c.atoms[nm] = (v, s, co)
    c.atom_meta[nm] = dict(kind=kind, lo=lo, hi=hi)
    if lo is not None:
        c.assumptions.append(v >= rv(lo))
    if hi is not None:
        c.assumptions.append(v <= rv(hi))
    if kind == 'input':
        # Ackermann congruence between input angles: equal (opposite) values have equal (mirrored) pairs
        for n2, (v2, s2, c2) in c.atoms.items():
            if n2 != nm and c.atom_meta[n2]['kind'] == 'input':
                c.assumptions.append(z3.Implies(v == v2, z3.And(s == s2, co == c2)))
                c.assumptions.append(z3.Implies(v == -v2, z3.And(s == -s2, co == c2)))
    sv = cv = None
    if val is not None:
        sv, cv = _math.sin(val), _math.cos(val)
    return (Term(v, ({nm: Fraction(1)}, Fraction(0)), val), Term(s, None, sv), Term(co, None, cv))


def _expand(items, q):
    """sin/cos of sum_i k_i*atom_i + q*pi/2 by the addition formulas (k_i, q integers)"""
    c = ctx()
    s, co = [(0, 1), (1, 0), (0, -1), (-1, 0)][q % 4]
    s, co = Term.lift(s), Term.lift(co)
    for name, k in items:
        _, sa, ca = c.atoms[name]
        sa, ca = Term(sa), Term(ca)
        if k < 0:
            sa, k = -sa, -k
        for _ in range(k):
            s, co = s * ca + co * sa, co * ca - s * sa
    return s, co


def trigpair(theta):
    """(sin theta, cos theta) as Terms"""
    c = ctx()
    if theta.const is not None:
        f = float(theta.const)
        # multiples of math.pi/2 are treated as the true multiples of pi/2 (error 1.2e-16, outside the claim)
        q = theta.const / (PI / 2)
        if q.denominator == 1:
            s, co = [(0, 1), (1, 0), (0, -1), (-1, 0)][int(q) % 4]
            return Term.lift(s), Term.lift(co)
        return Term.lift(_math.sin(f)), Term.lift(_math.cos(f))
    if c.concolic:
        return Term(theta.e, None, _math.sin(theta.val)), Term(theta.e, None, _math.cos(theta.val))
    if theta.lin is not None:
        d, k = theta.lin
        q = k / (PI / 2)
        if d and all(v.denominator == 1 for v in d.values()) and q.denominator == 1:
            return _expand([(n, int(v)) for n, v in sorted(d.items())], int(q))
        # half-integer coefficients: introduce half-angle atoms on demand
        if d and all((2 * v).denominator == 1 for v in d.values()) and (2 * q).denominator == 1 and q.denominator == 1:
            items = []
            for n, v in sorted(d.items()):
                if v.denominator == 1:
                    items.append((n, int(v)))
                else:
                    items.append((_half_atom(n), int(2 * v)))
            return _expand(items, int(q))
    ths = z3.simplify(theta.e)
    key = ths.get_id()
    if key not in c.opaque:
        comb = _linear_combination_of_atoms(c, theta)
        if comb is not None:
            c.opaque[key] = ('comb', comb, None, ths)
    if key in c.opaque and c.opaque[key][0] == 'comb':
        return _expand(c.opaque[key][1], 0)
    if key not in c.opaque:
        t, s, co = new_atom('opq', kind='opaque')
        c.assumptions.append(t.e == theta.e)
        nm = str(t.e)
        for n2, (v2, s2, c2) in list(c.atoms.items()):
            if n2 == nm:
                continue
            c.assumptions.append(z3.Implies(t.e == v2, z3.And(s.e == s2, co.e == c2)))
            c.assumptions.append(z3.Implies(t.e == -v2, z3.And(s.e == -s2, co.e == c2)))
        c.assumptions.append(z3.Implies(t.e == 0, z3.And(s.e == 0, co.e == 1)))
        c.opaque[key] = (t, s, co, ths)
        c.notes.append(('opaque-angle', str(z3.simplify(theta.e))[:120]))
    t, s, co = c.opaque[key][:3]
    return s, co


def _linear_combination_of_atoms(c, theta):
    """an angle expression without an affine form that equals +-(atom) +- (atom) (+- atom) as a polynomial identity in
    the value variables, e.g. s*theta == theta - (1-s)*theta once (1-s)*theta is an atom: its sine and cosine are then
    given by the addition formulas instead of a fresh unrelated pair (A0, DESIGN 3.4)"""
    from .poly import which_zero
    names = list(c.atoms)
    if not names or len(names) > 12:
        return None
    cands, tags = [], []
    for i, n1 in enumerate(names):
        v1 = c.atoms[n1][0]
        for s1 in (1, -1):
            cands.append(theta.e - s1 * v1)
            tags.append([(n1, s1)])
            for n2 in names[i + 1:]:
                v2 = c.atoms[n2][0]
                for s2 in (1, -1):
                    cands.append(theta.e - s1 * v1 - s2 * v2)
                    tags.append([(n1, s1), (n2, s2)])
    # the value variables of opaque atoms are defined by t == expr: substitute them
    subst = [(t.e, ex, 'subst') for (t, _s, _c, ex) in [v for v in c.opaque.values() if v[0] != 'comb']]
    k = which_zero(list(c.rules) + subst, cands, max_terms=2000)
    if k is None:
        return None
    c.notes.append(('angle-combination', str(tags[k])))
    c.nlemmas = getattr(c, 'nlemmas', 0) + 1
    return tags[k]


def _half_atom(name):
    c = ctx()
    hn = c.atom_meta[name].get('half')
    if hn is None:
        v, s, co = c.atoms[name]
        t, sh, ch = new_atom('half', kind='half')
        hn = str(t.e)
        c.assumptions += [t.e * 2 == v, s == 2 * sh.e * ch.e, co == ch.e * ch.e - sh.e * sh.e]
        c.atom_meta[name]['half'] = hn
    return hn


def _sin(x):
    if isinstance(x, Term):
        return trigpair(x)[0]
    return _math.sin(x)


def _cos(x):
    if isinstance(x, Term):
        return trigpair(x)[1]
    return _math.cos(x)


def _tan(x):
    if not isinstance(x, Term):
        return _math.tan(x)
    if x.const is not None:
        # the float code relies on tan(math.pi/2) being a huge finite number (1/tan -> 6e-17); keep that value
        return Term.lift(_math.tan(float(x.const)))
    s, co = trigpair(x)
    return s / co


def _value_axioms_principal(c, t, s, co, lo, hi):
    """A2: bounds of a principal-range angle"""
    c.assumptions += [t >= lo, t <= hi]


def _canonical(c, t):
    """the Term rewritten to its normal form modulo the asserted constraints (equal under the assumptions)"""
    if not c.rules or t.const is not None:
        return t
    from .poly import Normalizer, TooBig
    try:
        nf, zero = Normalizer(c.rules, 4000, budget_s=3.0).normal_form(t.e)
    except TooBig:
        return t
    if zero:
        return Term.lift(0)
    nf = z3.simplify(nf)
    if z3.is_rational_value(nf):
        return Term.lift(nf.as_fraction())
    return Term(nf)


def _match_atom(c, tests):
    """tests: list of (tag, z3 expr); returns the tag of the first expression that normalises to zero modulo the
    asserted constraints (denominators cleared), else None.  This is the lemma behind the resolution of inverse
    trigonometric functions: e.g. atan2(y, x) with y*cos(a) - x*sin(a) == 0 is a or a + pi."""
    if not tests:
        return None
    from .poly import which_zero
    k = which_zero(c.rules, [e for _, e in tests], max_terms=8000, recips=c.recips)
    return None if k is None else tests[k][0]


def _same_angle_if_principal(c, nm, lo, hi):
    """the atom itself when its declared range lies inside [lo, hi] (then the inverse function returns exactly it)"""
    meta = c.atom_meta.get(nm, {})
    alo, ahi = meta.get('lo'), meta.get('hi')
    if alo is None or ahi is None:
        return None
    if Fraction(alo) >= lo and Fraction(ahi) <= hi:
        return Term(c.atoms[nm][0], ({nm: Fraction(1)}, Fraction(0)))
    return None


def _angle_relation(c, t, base_v, sign, offsets, period):
    """t == sign*base_v + off + period*m for an integer m and one of the offsets"""
    m = c.fresh('wind', 'int')
    if len(offsets) == 1:
        c.assumptions.append(t == sign * base_v + offsets[0] + period * z3.ToReal(m))
    else:
        c.assumptions.append(z3.Or([t == sign * base_v + o + period * z3.ToReal(m) for o in offsets]))


def _atan2(y, x):
    if not isinstance(y, Term) and not isinstance(x, Term) and isinstance(y, (int, float)) and isinstance(x, (int, float)):
        return _math.atan2(y, x)
    yt, xt = Term.lift(y), Term.lift(x)
    if yt is None or xt is None:
        raise TypeError('atan2 arguments')
    if yt.const is not None and xt.const is not None:
        return Term.lift(_math.atan2(float(yt.const), float(xt.const)))
    c = ctx()
    if c.concolic:
        return Term(yt.e, None, _math.atan2(yt.val, xt.val))
    ye, xe = yt.e, xt.e
    p = zpi()
    mk = ('atan2', ye.get_id(), xe.get_id())
    if mk in c.div_memo:
        return c.div_memo[mk][0]
    t = _atan2_new(c, yt, xt, ye, xe, p)
    c.div_memo[mk] = (t, ye, xe)
    return t


def _atan2_new(c, yt, xt, ye, xe, p):
    # resolution: (y, x) parallel to the (sin, cos) pair of a known atom, or of twice a known atom (rotation matrices built
    # from half-angle data: unit quaternions)
    tests = [((nm, 1, 1), ye * ca - xe * sa) for nm, (va, sa, ca) in c.atoms.items()]
    inputs_ = [(nm, a) for nm, a in c.atoms.items() if c.atom_meta.get(nm, {}).get('kind', 'input') == 'input']
    tests += [((nm, 2, 1), ye * (ca * ca - sa * sa) - xe * (2 * sa * ca)) for nm, (va, sa, ca) in inputs_]
    tests += [((nm, 1, -1), ye * ca + xe * sa) for nm, (va, sa, ca) in inputs_]                   # the mirrored angle -a
    tests += [((nm, 2, -1), ye * (ca * ca - sa * sa) + xe * (2 * sa * ca)) for nm, (va, sa, ca) in inputs_]
    hit = _match_atom(c, tests)
    if hit is not None:
        hit, mult, sgn = hit
        va, sa, ca = c.atoms[hit]
        if mult == 2:
            va, sa, ca = 2 * va, 2 * sa * ca, ca * ca - sa * sa
        if sgn == -1:
            va, sa = -va, -sa
        k = Term(ye) * Term(sa) + Term(xe) * Term(ca)          # (y, x) == k * (sin a, cos a)
        k = _canonical(c, k)        # same factor written differently -> same decision (no duplicate forks)
        if (k > 0):
            if sgn == 1:
                same = _same_angle_if_principal(c, hit, -PI * Fraction(9999, 10000) / mult, PI / mult)
            else:
                same = _same_angle_if_principal(c, hit, -PI / mult, PI * Fraction(9999, 10000) / mult)
            if same is not None:
                return same * (mult * sgn) if (mult, sgn) != (1, 1) else same
            t, s, co = new_atom('atan2', kind='atan2', pair=(sa, ca))
            _angle_relation(c, t.e, va, 1, [0], 2 * p)
        elif (k < 0):
            t, s, co = new_atom('atan2', kind='atan2', pair=(-sa, -ca))
            _angle_relation(c, t.e, va, 1, [p], 2 * p)
        else:
            return Term.lift(0)
        c.assumptions += [t.e > -p, t.e <= p]
        c.notes.append(('atan2-resolved', hit))
        c.nlemmas = getattr(c, 'nlemmas', 0) + 1
        return t
    t, s, co = new_atom('atan2', kind='atan2')
    nz = z3.Or(xe != 0, ye != 0)
    c.assumptions += [s.e * xe == co.e * ye, co.e * xe + s.e * ye >= 0,
                      z3.Implies(z3.Not(nz), z3.And(s.e == 0, co.e == 1))]
    c.assumptions += [t.e > -p, t.e <= p]
    if c.values:
        c.assumptions += [z3.Implies(z3.Not(nz), t.e == 0),
                          z3.Implies(ye > 0, z3.And(t.e > 0, t.e < p)),
                          z3.Implies(ye < 0, z3.And(t.e < 0, t.e > -p)),
                          z3.Implies(z3.And(ye == 0, xe > 0), t.e == 0),
                          z3.Implies(z3.And(ye == 0, xe < 0), t.e == p),
                          z3.Implies(xe > 0, z3.And(t.e > -p / 2, t.e < p / 2)),
                          z3.Implies(xe < 0, z3.Or(t.e > p / 2, t.e < -p / 2)),
                          z3.Implies(z3.And(xe == 0, ye > 0), t.e == p / 2),
                          z3.Implies(z3.And(xe == 0, ye < 0), t.e == -p / 2)]
    return t


def _acos(x):
    """memoised by argument identity: the same call evaluated twice is the same Term"""
    if isinstance(x, Term) and x.const is None and Ctx.cur is not None and not Ctx.cur.concolic:
        c = Ctx.cur
        mk = ('_acos', x.e.get_id())
        if mk not in c.div_memo:
            c.div_memo[mk] = (_acos_new(x), x.e)
        return c.div_memo[mk][0]
    return _acos_new(x)


def _acos_new(x):
    if not isinstance(x, Term):
        return _math.acos(x)
    if x.const is not None:
        if abs(x.const) > 1:
            raise ValueError('math domain error')
        return Term.lift(_math.acos(float(x.const)))
    c = ctx()
    if (x < -1) or (x > 1):
        raise ValueError('math domain error')
    if c.concolic:
        return Term(x.e, None, _math.acos(x.val))
    prior = list(c.atoms.items())
    p = zpi()
    tests = []
    for nm, (va, sa, ca) in c.atoms.items():
        tests += [((nm, 1), x.e - ca), ((nm, -1), x.e + ca)]
    hit = _match_atom(c, tests)
    if hit is not None:
        nm, sg = hit
        va, sa, ca = c.atoms[nm]
        # cos(phi) = sg*cos(a), sin(phi) = |sin a|, phi in [0, pi]
        if (Term(sa) >= 0):
            same = _same_angle_if_principal(c, nm, Fraction(0), PI) if sg == 1 else None
            if same is not None:
                return same
            t, s, co = new_atom('acos', kind='acos', pair=(sa, sg * ca))
            _angle_relation(c, t.e, va, sg, [0] if sg == 1 else [p], 2 * p)
        else:
            t, s, co = new_atom('acos', kind='acos', pair=(-sa, sg * ca))
            _angle_relation(c, t.e, va, -sg, [0] if sg == 1 else [p], 2 * p)
        c.assumptions += [t.e >= 0, t.e <= p]
        c.notes.append(('acos-resolved', nm))
        c.nlemmas = getattr(c, 'nlemmas', 0) + 1
        return t
    t, s, co = new_atom('acos', kind='acos')
    c.assumptions += [co.e == x.e, s.e >= 0, t.e >= 0, t.e <= p]
    # A3 enclosures on the principal range (sound for every real argument), near 0 and near pi
    for (u, su, cu) in ((t.e, s.e, co.e), (p - t.e, s.e, -co.e)):
        c.assumptions += [su <= u, su >= u - u * u * u / 6, cu >= 1 - u * u / 2, cu <= 1 - u * u / 2 + u * u * u * u / 24]
    if c.values:
        for nm, (v2, s2, c2) in prior:
            c.assumptions.append(z3.Implies(z3.And(v2 >= 0, v2 <= p, c2 == x.e), t.e == v2))
        c.assumptions += [z3.Implies(x.e == 1, t.e == 0), z3.Implies(x.e == -1, t.e == p),
                          z3.Implies(z3.And(x.e < 1, x.e > -1), z3.And(t.e > 0, t.e < p)),
                          z3.Implies(x.e > 0, t.e < p / 2), z3.Implies(x.e < 0, t.e > p / 2),
                          z3.Implies(x.e == 0, t.e == p / 2)]
    return t


def _asin(x):
    """memoised by argument identity: the same call evaluated twice is the same Term"""
    if isinstance(x, Term) and x.const is None and Ctx.cur is not None and not Ctx.cur.concolic:
        c = Ctx.cur
        mk = ('_asin', x.e.get_id())
        if mk not in c.div_memo:
            c.div_memo[mk] = (_asin_new(x), x.e)
        return c.div_memo[mk][0]
    return _asin_new(x)


def _asin_new(x):
    if not isinstance(x, Term):
        return _math.asin(x)
    if x.const is not None:
        if abs(x.const) > 1:
            raise ValueError('math domain error')
        q = {1: 1, -1: -1, 0: 0}.get(x.const)
        if q is not None:
            return Term.lift(q * PI / 2)
        return Term.lift(_math.asin(float(x.const)))
    c = ctx()
    if (x < -1) or (x > 1):
        raise ValueError('math domain error')
    if c.concolic:
        return Term(x.e, None, _math.asin(x.val))
    p = zpi()
    tests = []
    for nm, (va, sa, ca) in c.atoms.items():
        tests += [((nm, 1), x.e - sa), ((nm, -1), x.e + sa)]
    hit = _match_atom(c, tests)
    if hit is not None:
        nm, sg = hit
        va, sa, ca = c.atoms[nm]
        # sin(phi) = sg*sin(a), cos(phi) = |cos a|, phi in [-pi/2, pi/2]
        if (Term(ca) >= 0):
            same = _same_angle_if_principal(c, nm, -PI / 2, PI / 2) if sg == 1 else None
            if same is not None:
                return same
            t, s, co = new_atom('asin', kind='asin', pair=(sg * sa, ca))
            _angle_relation(c, t.e, va, sg, [0], 2 * p)
        else:
            t, s, co = new_atom('asin', kind='asin', pair=(sg * sa, -ca))
            _angle_relation(c, t.e, va, -sg, [p], 2 * p)
        c.assumptions += [t.e >= -p / 2, t.e <= p / 2]
        c.notes.append(('asin-resolved', nm))
        c.nlemmas = getattr(c, 'nlemmas', 0) + 1
        return t
    t, s, co = new_atom('asin', kind='asin')
    c.assumptions += [s.e == x.e, co.e >= 0, t.e >= -p / 2, t.e <= p / 2]
    if c.values:
        c.assumptions += [z3.Implies(x.e == 1, t.e == p / 2), z3.Implies(x.e == -1, t.e == -p / 2),
                          z3.Implies(x.e == 0, t.e == 0),
                          z3.Implies(x.e > 0, t.e > 0), z3.Implies(x.e < 0, t.e < 0)]
    return t


def _atan(x):
    """memoised by argument identity: the same call evaluated twice is the same Term"""
    if isinstance(x, Term) and x.const is None and Ctx.cur is not None and not Ctx.cur.concolic:
        c = Ctx.cur
        mk = ('_atan', x.e.get_id())
        if mk not in c.div_memo:
            c.div_memo[mk] = (_atan_new(x), x.e)
        return c.div_memo[mk][0]
    return _atan_new(x)


def _atan_new(x):
    if not isinstance(x, Term):
        return _math.atan(x)
    if x.const is not None:
        return Term.lift(_math.atan(float(x.const)))
    c = ctx()
    if c.concolic:
        return Term(x.e, None, _math.atan(x.val))
    p = zpi()
    tests = []
    for nm, (va, sa, ca) in c.atoms.items():
        tests += [((nm, 1), x.e * ca - sa), ((nm, -1), x.e * ca + sa)]
    hit = _match_atom(c, tests)
    if hit is not None:
        nm, sg = hit
        va, sa, ca = c.atoms[nm]
        # tan(phi) = sg*tan(a), cos(phi) > 0
        if (Term(ca) > 0):
            same = _same_angle_if_principal(c, nm, -PI / 2 * Fraction(9999, 10000), PI / 2 * Fraction(9999, 10000)) if sg == 1 else None
            if same is not None:
                return same
            t, s, co = new_atom('atan', kind='atan', pair=(sg * sa, ca))
            _angle_relation(c, t.e, va, sg, [0], 2 * p)
        elif (Term(ca) < 0):
            t, s, co = new_atom('atan', kind='atan', pair=(-sg * sa, -ca))
            _angle_relation(c, t.e, va, sg, [p], 2 * p)
        else:
            raise NotEncodable('atan resolution with cos == 0')
        c.assumptions += [t.e > -p / 2, t.e < p / 2]
        c.notes.append(('atan-resolved', nm))
        c.nlemmas = getattr(c, 'nlemmas', 0) + 1
        return t
    t, s, co = new_atom('atan', kind='atan')
    c.assumptions += [co.e > 0, s.e == x.e * co.e, t.e > -p / 2, t.e < p / 2]
    if c.values:
        c.assumptions += [z3.Implies(x.e == 0, t.e == 0), z3.Implies(x.e > 0, t.e > 0), z3.Implies(x.e < 0, t.e < 0)]
    return t


# --------------------------------------------------------------------------- exp / log (A4)

def _log(x):
    if not isinstance(x, Term):
        return _math.log(x)
    if x.const is not None:
        if x.const <= 0:
            raise ValueError('math domain error')
        return Term.lift(0 if x.const == 1 else _math.log(float(x.const)))
    c = ctx()
    for (e, te) in getattr(c, 'exps', []):
        if e.eq(x.e):
            return Term(te)          # log(exp(t)) = t, structurally
    if (x <= 0):
        raise ValueError('math domain error')
    if c.concolic:
        return Term(x.e, None, _math.log(x.val))
    l = c.fresh('log')
    c.notes.append(('log', l, x.e))
    c.assumptions += [z3.Implies(x.e == 1, l == 0), z3.Implies(x.e > 1, l > 0), z3.Implies(x.e < 1, l < 0),
                      l <= x.e - 1, l * x.e >= x.e - 1]      # sound enclosures 1 - 1/x <= log x <= x - 1
    if not hasattr(c, 'logs'):
        c.logs = []
    c.logs.append((l, x.e))
    return Term(l)


def _exp(x):
    if not isinstance(x, Term):
        return _math.exp(x)
    if x.const is not None:
        return Term.lift(1 if x.const == 0 else _math.exp(float(x.const)))
    c = ctx()
    if c.concolic:
        return Term(x.e, None, _math.exp(x.val))
    for (l, xe) in getattr(c, 'logs', []):
        if l.eq(x.e):
            return Term(xe)
    e = c.fresh('exp')
    c.assumptions += [e > 0, z3.Implies(x.e == 0, e == 1), z3.Implies(x.e > 0, e > 1), z3.Implies(x.e < 0, e < 1),
                      e >= 1 + x.e, z3.Implies(x.e < 1, e * (1 - x.e) <= 1)]    # 1 + t <= exp t <= 1/(1-t)
    for (l, xe) in getattr(c, 'logs', []):
        c.assumptions.append(z3.Implies(x.e == l, e == xe))
    if not hasattr(c, 'exps'):
        c.exps = []
    c.exps.append((e, x.e))
    return Term(e)
