"""Harness-facing API: claims are plain functions `f(h)` that build inputs through `h`, call the
real library, and state assertions through `h`.  The same function body runs
  * symbolically (inputs are Terms; assertions become solver obligations, per explored path),
  * concretely   (inputs are floats from a solver model; assertions are checked numerically
                  against the unshimmed library in a fresh interpreter -- the replay),
  * concolically (Terms with shadow floats through the shims -- translator validation)."""
import math
import random
from fractions import Fraction
import numpy as np
import z3
from . import core
from .core import Term, SBool, Ctx, NotEncodable, rv, PI


class AssumptionFailed(Exception):
    pass


class Claim:
    def __init__(self, name, fn, **opts):
        self.name = name
        self.fn = fn
        self.values = opts.pop('values', False)        # A2 layer
        self.split = opts.pop('split', False)          # one solver job per obligation
        self.timeout = opts.pop('timeout', None)       # per query seconds override
        self.tier = opts.pop('tier', 'quick')          # 'quick' claims run in both tiers
        self.max_paths = opts.pop('max_paths', 512)
        self.sym_random = opts.pop('sym_random', False)
        self.doc = opts.pop('doc', fn.__doc__ or '')
        self.expect_paths = opts.pop('expect_paths', None)
        self.tol = opts.pop('tol', 1e-9)
        self.funcs = opts.pop('funcs', ())
        self.family = opts.pop('family', '')
        self.novalidate = opts.pop('novalidate', False)
        if opts:
            raise TypeError(f'unknown claim options {opts}')


class Registry:
    def __init__(self, prop):
        self.prop = prop
        self.claims = {}

    def claim(self, name, **opts):
        def deco(fn):
            if name in self.claims:
                raise KeyError(f'duplicate claim {name}')
            self.claims[name] = Claim(name, fn, **opts)
            return fn
        return deco


class Violation(Exception):
    def __init__(self, label, detail=''):
        super().__init__(f'{label}: {detail}')
        self.label = label
        self.detail = detail


def _is_sym(x):
    if isinstance(x, (Term, SBool)):
        return True
    if isinstance(x, np.ndarray) and x.dtype == object:
        return any(isinstance(v, (Term, SBool)) for v in x.ravel())
    if isinstance(x, (list, tuple)):
        return any(_is_sym(v) for v in x)
    return False


class H:
    """harness context; mode in {'sym', 'concrete', 'concolic'}"""

    def __init__(self, mode, given=None, seed=0, tol=1e-9):
        self.mode = mode
        self.given = dict(given or {})
        self.rng = random.Random(seed)
        self.used = {}
        self.tol = tol
        self.violations = []     # concrete mode: (label, detail)
        self.observed = []       # (label, value) pairs for translator validation
        self.checked = 0

    # ------------------------------------------------------------------ inputs
    @property
    def sym(self):
        return self.mode == 'sym'

    def _concrete_value(self, name, lo, hi, default=None):
        if name in self.used and name not in self.given:
            return self.used[name]          # the same input name always denotes the same value
        if name in self.given:
            v = float(self.given[name])
            # a model value outside the declared range (possible for angles rebuilt from an
            # abstract (sin, cos) pair) is not an input of the claim's family
            if (lo is not None and v < float(lo) - 1e-12 * max(1.0, abs(float(lo)))) or \
               (hi is not None and v > float(hi) + 1e-12 * max(1.0, abs(float(hi)))):
                raise AssumptionFailed()
        else:
            a = -10.0 if lo is None else float(lo)
            b = 10.0 if hi is None else float(hi)
            v = self.rng.uniform(a, b)
        self.used[name] = v
        return v

    def real(self, name, lo=None, hi=None):
        """a free real input, optionally bounded"""
        if self.mode == 'concrete':
            return self._concrete_value(name, lo, hi)
        c = core.ctx()
        v = z3.Real(name)
        if lo is not None:
            c.assumptions.append(v >= rv(lo))
        if hi is not None:
            c.assumptions.append(v <= rv(hi))
        c.inputs.append((name, 'real', v))
        val = self._concrete_value(name, lo, hi) if self.mode == 'concolic' else None
        return Term(v, None, val)

    def angle(self, name, lo=None, hi=None):
        """an angle input (radians): a real with an attached (sin, cos) pair so that the library's
        sin/cos of it -- and of sums, negations, integer multiples -- expand exactly"""
        if self.mode == 'concrete':
            return self._concrete_value(name, -math.pi if lo is None else lo, math.pi if hi is None else hi)
        c = core.ctx()
        val = None
        if self.mode == 'concolic':
            val = self._concrete_value(name, -math.pi if lo is None else lo, math.pi if hi is None else hi)
        t, s, co = core.new_atom(name, kind='input', lo=lo, hi=hi, val=val)
        c.inputs.append((name, 'angle', t.e, s.e, co.e, lo, hi))
        if lo is not None and hi is not None and not c.concolic:
            _quadrant_axioms(c, t.e, s.e, co.e, Fraction(lo), Fraction(hi))
        return t

    def sincos(self, t):
        """(sin t, cos t) of an angle built from h.angle atoms, in any mode"""
        if isinstance(t, Term):
            return core.trigpair(t)
        return math.sin(t), math.cos(t)

    def vec(self, name, n, lo=None, hi=None):
        return self.arr([self.real(f'{name}{i}', lo, hi) for i in range(n)])

    def mat(self, name, r, c, lo=None, hi=None):
        return self.arr([[self.real(f'{name}{i}{j}', lo, hi) for j in range(c)] for i in range(r)])

    def arr(self, x):
        """ndarray of the right dtype for the mode"""
        if self.mode == 'concrete':
            return np.array(x, dtype=float)
        a = np.empty(np.shape(x), dtype=object)
        a[...] = np.array(x, dtype=object)
        return a

    def const(self, x):
        """ndarray constant (ints stay exact ints in symbolic mode)"""
        return self.arr(x)

    def deg(self, rad):
        """the degrees value whose library conversion `*pi/180` is exactly `rad` in the R-model"""
        if isinstance(rad, Term):
            return rad * (Fraction(180) / PI)
        return rad * 180.0 / math.pi

    def pi(self):
        return math.pi

    # ------------------------------------------------------------------ assumptions
    def assume(self, cond):
        if isinstance(cond, SBool):
            if self.mode == 'sym':
                core.ctx().assume(cond.e)
                return
            cond = cond.val
        if not cond:
            raise AssumptionFailed()

    # ------------------------------------------------------------------ assertions
    def _fail(self, label, detail):
        self.violations.append((label, detail))

    def true(self, label, cond, kind='claim'):
        self.checked += 1
        if isinstance(cond, SBool):
            if self.mode == 'sym':
                core.ctx().require(label, cond.e, kind)
                return
            cond = cond.val
        if isinstance(cond, np.ndarray):
            cond = bool(np.all(cond))
        if self.mode == 'sym':
            core.ctx().require(label, z3.BoolVal(bool(cond)), kind)
        elif not cond:
            self._fail(label, 'condition false')

    def eq(self, label, a, b, tol=None, scale=1.0, exact_only=False):
        """a == b entrywise.  Symbolic: exact equality in R, with the tolerance inequality
        |a-b| <= tol*scale as fall-back obligation.  Concrete: |a-b| <= tol*max(scale,1)."""
        tol = self.tol if tol is None else tol
        A = np.asarray(a, dtype=object) if _is_sym(a) or self.mode != 'concrete' else np.asarray(a, dtype=float)
        B = np.asarray(b, dtype=object) if _is_sym(b) or self.mode != 'concrete' else np.asarray(b, dtype=float)
        if A.shape != B.shape:
            try:
                A, B = np.broadcast_arrays(A, B)
            except ValueError:
                self.true(label + ':shape', False)
                return
            if A.shape != np.shape(a) and B.shape != np.shape(b):
                self.true(label + ':shape', False)
                return
        self.observed.append((label, A, scale))
        for idx in np.ndindex(A.shape) if A.shape else [()]:
            x, y = A[idx], B[idx]
            lab = label + (str(list(idx)) if idx else '')
            self.checked += 1
            if self.mode == 'sym':
                xt, yt = Term.lift(x), Term.lift(y)
                if xt is None or yt is None:
                    core.ctx().require(lab, z3.BoolVal(False), 'type')
                    continue
                st = Term.lift(scale)
                d = xt.e - yt.e
                relaxed = None if exact_only else z3.And(d <= rv(tol) * st.e, -d <= rv(tol) * st.e)
                core.ctx().oblig.append((lab, xt.e == yt.e, 'eq', relaxed, (xt.e, yt.e, None if exact_only else rv(tol) * st.e)))
            else:
                xv = x.val if isinstance(x, Term) else float(x)
                yv = y.val if isinstance(y, Term) else float(y)
                sc = scale.val if isinstance(scale, Term) else float(scale)
                # floats: relative to the stated scale or to the magnitude of the compared values themselves (rounding of a
                # result of size 1e8 is not a disagreement of 1e-9)
                if not (abs(xv - yv) <= tol * max(1.0, sc, abs(xv), abs(yv))):
                    self._fail(lab, f'{xv!r} != {yv!r} (tol {tol:g}, scale {sc:g})')

    def le(self, label, a, b):
        at, bt = (Term.lift(a), Term.lift(b)) if self.mode != 'concrete' else (a, b)
        self.true(label, at <= bt)

    def same(self, label, a, b, bitwise=False):
        """structural identity of two results (same DAG => bitwise equal floats).  Falls back to
        R-equality obligations where the DAGs differ."""
        if self.mode != 'sym':
            tov = np.vectorize(lambda x: x.val if isinstance(x, Term) else float(x), otypes=[float])
            A = tov(np.asarray(a, dtype=object)) if np.size(a) else np.asarray(a, dtype=float)
            B = tov(np.asarray(b, dtype=object)) if np.size(b) else np.asarray(b, dtype=float)
            self.observed.append((label, A))
            self.checked += 1
            if self.mode == 'concolic' or not bitwise:
                # two routes to the same value (deg vs rad input, class vs base function) differ by rounding in floats;
                # only "the same call twice" (bitwise=True, C17) must agree to the last bit
                with np.errstate(invalid='ignore'):
                    ok = A.shape == B.shape and bool(np.all((np.abs(A - B) <= 1e-9 * np.maximum(1.0, np.abs(A))) | (np.isnan(A) & np.isnan(B))))
            else:
                ok = A.shape == B.shape and np.array_equal(A, B, equal_nan=True)     # NaN twice is the same result
            if not ok:
                self._fail(label, f'not bitwise equal: {A!r} vs {B!r}')
            return
        A, B = np.asarray(a, dtype=object), np.asarray(b, dtype=object)
        if A.shape != B.shape:
            self.true(label + ':shape', False)
            return
        for idx in np.ndindex(A.shape) if A.shape else [()]:
            x, y = Term.lift(A[idx]), Term.lift(B[idx])
            lab = label + (str(list(idx)) if idx else '')
            self.checked += 1
            if x is None or y is None:
                core.ctx().require(lab, z3.BoolVal(x is None and y is None and A[idx] == B[idx]), 'same')
            elif x.e.eq(y.e):
                core.ctx().require(lab, z3.BoolVal(True), 'same-structural')
            else:
                core.ctx().oblig.append((lab, x.e == y.e, 'same', None, (x.e, y.e, None)))

    def raises(self, label, fn, excs=Exception):
        """fn() must raise (one of excs) on this path"""
        self.checked += 1
        try:
            r = fn()
        except NotEncodable:
            raise
        except excs as e:
            if _looks_not_encodable(e):
                raise NotEncodable(str(e))
            if self.mode == 'sym':
                core.ctx().require(label, z3.BoolVal(True), 'raises')
            return None
        # returned normally: on a feasible path this is the violation
        if self.mode == 'sym':
            core.ctx().require(label, z3.BoolVal(False), 'raises')
        else:
            self._fail(label, f'no exception; returned {type(r).__name__}')
        return r

    def is_type(self, label, obj, typ):
        ok = type(obj) is typ if isinstance(typ, type) else isinstance(obj, typ)
        self.true(label, ok, 'type')

    def unit(self, vec):
        """constrain a symbolic vector to unit length: assumption + rewrite rule last^2 -> 1 - rest"""
        if self.mode != 'sym':
            return
        c = core.ctx()
        es = [Term.lift(x).e for x in vec]
        c.assumptions.append(z3.Sum([e * e for e in es]) == 1)
        c.rules.append((es[-1], 1 - z3.Sum([e * e for e in es[:-1]])))

    def sqrt_hint(self, g):
        """propose |g| as the value of any later sqrt whose radicand the solver proves equal to g*g"""
        if self.mode == 'sym' and isinstance(g, Term):
            c = core.ctx()
            if not hasattr(c, 'sqrt_hints'):
                c.sqrt_hints = []
            c.sqrt_hints.append(g)

    def note(self, *a):
        if self.mode == 'sym':
            core.ctx().notes.append(a)


def _looks_not_encodable(e):
    s = str(e)
    if 'NoneType' in s:
        return False      # the library produced None and used it: a result of the code under test
    import re as _re
    m = _re.match(r"unsupported operand type\(s\) for [^:]+: '(\w+)' and '(\w+)'", s)
    if m and not (m.group(1) in ('Term', 'SBool') and m.group(2) in ('Term', 'SBool')) \
            and not ({m.group(1), m.group(2)} & {'float', 'int', 'ndarray', 'float64'}):
        return False      # Python's own operator dispatch rejecting a library object paired with a scalar
    if "can't multiply sequence by non-int" in s:
        return False
    if "object is not iterable" in s or "object is not subscriptable" in s or "has no len()" in s:
        return False      # the library treated a scalar/bool as a sequence: same failure with float/bool
    m = _re.match(r"'(Term|SBool)' object has no attribute '(\w+)'", s)
    if m and not hasattr(1.0 if m.group(1) == 'Term' else True, m.group(2)):
        return False      # a float / bool has no such attribute either
    return isinstance(e, (TypeError, AttributeError)) and ('Term' in s or 'SBool' in s)


def _quadrant_axioms(c, v, s, co, lo, hi):
    """A2-lite for *input* angles with a declared range inside [-2pi, 2pi]: sign facts linking the
    value to its (sin, cos) pair, so that models are consistent for replay and range-dependent
    claims (theta in (0, pi) => sin > 0) are decidable."""
    p = core.zpi()
    if lo >= -PI and hi <= PI:
        c.assumptions += [z3.Implies(z3.And(v > 0, v < p), s > 0), z3.Implies(z3.And(v < 0, v > -p), s < 0),
                          z3.Implies(v == 0, z3.And(s == 0, co == 1)),
                          z3.Implies(z3.Or(v == p, v == -p), z3.And(s == 0, co == -1)),
                          z3.Implies(z3.And(v > -p / 2, v < p / 2), co > 0),
                          z3.Implies(z3.Or(v > p / 2, v < -p / 2), co < 0),
                          z3.Implies(v == p / 2, z3.And(s == 1, co == 0)),
                          z3.Implies(v == -p / 2, z3.And(s == -1, co == 0))]
        # A3: sound Taylor enclosures coupling the value to the pair (valid for every real argument):
        #   |sin x| <= |x|, sin x >= x - x^3/6 (x >= 0), 1 - x^2/2 <= cos x <= 1 - x^2/2 + x^4/24,
        # stated in v (near 0) and in u = pi - |v| (near a half turn)
        def enc(x, sx, cx):
            return [z3.Implies(x >= 0, z3.And(sx <= x, sx >= x - x * x * x / 6)),
                    z3.Implies(x <= 0, z3.And(sx >= x, sx <= x - x * x * x / 6)),
                    cx >= 1 - x * x / 2, cx <= 1 - x * x / 2 + x * x * x * x / 24]
        c.assumptions += enc(v, s, co)
        if hi > 2:
            c.assumptions += enc(p - v, s, -co)
        if lo < -2:
            c.assumptions += enc(p + v, -s, -co)
