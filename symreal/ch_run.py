"""Engine E2 runner (C10): one CrossHair process per (class, contract), counterexamples replayed natively,
known findings matched, evidence written.  `python -m symreal.ch_run C10 --tier quick`"""
import argparse
import ast
import hashlib
import json
import os
import re
import subprocess
import sys
import time
from concurrent.futures import ThreadPoolExecutor

ROOT = os.path.dirname(os.path.dirname(os.path.abspath(__file__)))
PY = sys.executable
CONTRACTS = os.path.join(ROOT, 'ch', 'c10_contracts.py')
CLASSES = {'quick': ['SO2', 'SE2', 'SO3', 'SE3', 'Quaternion', 'UnitQuaternion', 'Twist2', 'Twist3', 'Plucker', 'SpatialVelocity'],
           'thorough': ['SO2', 'SE2', 'SO3', 'SE3', 'Quaternion', 'UnitQuaternion', 'Twist2', 'Twist3', 'Plucker', 'SpatialVelocity',
                        'SpatialAcceleration', 'SpatialForce', 'SpatialMomentum']}
FUNCS = ['index_matches_list', 'slice_matches_list', 'iter_len_match', 'step_matches_list', 'wrong_operand_rejected',
         'construct_from_objects', 'dimension_length_matches_list']
TIMEOUT = {'quick': 40, 'thorough': 120}


def func_lines():
    src = open(CONTRACTS).read()
    out = {}
    for node in ast.parse(src).body:
        if isinstance(node, ast.FunctionDef) and node.name in FUNCS:
            out[node.name] = node.lineno + 1
    return out


# classes whose slice / mutator contracts are split into sub-domains small enough for CrossHair to exhaust
# (slice parts are realised at the C-level slice.indices(), so each (start, stop) pair is its own path)
SLICE_SPLIT = {'quick': ['SO2'], 'thorough': None}          # None = all classes
STEP_SPLIT = {'quick': ['SO2', 'Plucker', 'SpatialVelocity'], 'thorough': None}
BOUND = {'quick': '6', 'thorough': '7'}


def splits(tier, cls, fn):
    """domain specialisations (env overrides) for one (class, contract)"""
    if fn == 'slice_matches_list':
        if SLICE_SPLIT[tier] is None or cls in SLICE_SPLIT[tier]:
            return [dict(C10_N=str(n), C10_STEP=str(st), C10_BOUND=BOUND[tier], _tmo=4) for n in range(5)
                    for st in (None, 1, 2, 3, -1, -2, -3)]
        return [dict(C10_BOUND=BOUND[tier])]
    if fn == 'step_matches_list' and (STEP_SPLIT[tier] is None or cls in STEP_SPLIT[tier]):
        return [dict(C10_N=str(n), C10_OP=str(op)) for n in range(6) for op in range(9)]
    return [dict()]


def run_crosshair(cls, fn, line, tmo, fix=None):
    env = dict(os.environ, C10_CLASS=cls, PYTHONPATH=os.environ.get('VERIF_REPO', '/repo') + os.pathsep + ROOT, MPLBACKEND='Agg', PYTHONWARNINGS='ignore', PYTHONDONTWRITEBYTECODE='1')
    fix = dict(fix or {})
    tmo = tmo * int(fix.pop('_tmo', 1))
    env.update(fix)
    t0 = time.time()
    try:
        p = subprocess.run([PY, '-m', 'crosshair', 'check', '--report_all', '--per_condition_timeout', str(tmo),
                            f'{CONTRACTS}:{line}'], capture_output=True, text=True, env=env, cwd=ROOT, timeout=tmo * 3 + 60)
        out = p.stdout + p.stderr
    except subprocess.TimeoutExpired:
        out = 'TIMEOUT'
    dt = time.time() - t0
    res = dict(cls=cls, fn=fn, time=dt, raw=out[-600:], fix=fix or {})
    m = re.search(r'error: false when calling (\w+)\((.*)\) \(which returns', out)
    if m:
        res.update(verdict='counterexample', args=m.group(2))
    elif re.search(r'error: (\w+Error|Exception|AssertionError)', out):
        m2 = re.search(r'error: (.*?) when calling (\w+)\((.*)\)', out)
        res.update(verdict='counterexample' if m2 else 'error', args=m2.group(3) if m2 else None, exc=m2.group(1) if m2 else out[-300:])
    elif 'Confirmed over all paths' in out:
        res.update(verdict='confirmed')
    elif 'Unable to meet precondition' in out:
        res.update(verdict='no-precondition')
    elif 'Not confirmed' in out:
        res.update(verdict='not-confirmed')
    else:
        res.update(verdict='unknown')
    return res


def replay(cls, fn, args):
    """native call of the contract with the printed arguments in a fresh interpreter"""
    code = (f"import os; os.environ['C10_CLASS']={cls!r}\nimport sys; sys.path.insert(0, {ROOT!r})\n"
            f"import ch.c10_contracts as m\nr = m.{fn}({args})\nprint('REPLAY', r)")
    env = dict(os.environ, PYTHONPATH=os.environ.get('VERIF_REPO', '/repo') + os.pathsep + ROOT, MPLBACKEND='Agg', PYTHONWARNINGS='ignore', PYTHONDONTWRITEBYTECODE='1')
    p = subprocess.run([PY, '-c', code], capture_output=True, text=True, env=env, cwd=ROOT, timeout=120)
    if 'REPLAY False' in p.stdout:
        return True, 'returns False'
    if 'REPLAY True' in p.stdout:
        return False, 'returns True'
    return True, ('raises: ' + p.stderr.strip().splitlines()[-1][:200]) if p.stderr.strip() else (False, 'no output')


def load_known():
    p = os.path.join(ROOT, 'known_findings.json')
    return json.load(open(p)).get('findings', []) if os.path.exists(p) else []


def main(argv=None):
    ap = argparse.ArgumentParser()
    ap.add_argument('prop')
    ap.add_argument('--tier', default=os.environ.get('VERIF_TIER', 'quick'), choices=['quick', 'thorough'])
    ap.add_argument('--replay')
    ap.add_argument('--only')
    ap.add_argument('--no-evidence', action='store_true')
    ap.add_argument('--no-validate', action='store_true')
    a = ap.parse_args(argv)
    seed = int(os.environ.get('VERIF_SEED', '0') or 0)
    if a.replay:
        blob = json.load(open(a.replay))
        ok, how = replay(blob['class'], blob['contract'], blob['args'])
        print('REPRODUCED' if ok else 'NOT-REPRODUCED', how)
        return 1 if ok else 0
    t0 = time.time()
    lines = func_lines()
    jobs = [(c, f, fx) for c in CLASSES[a.tier] for f in FUNCS if not a.only or re.search(a.only, f'{c}:{f}')
            for fx in splits(a.tier, c, f)]
    tmo = TIMEOUT[a.tier]
    with ThreadPoolExecutor(max(2, min(15, (os.cpu_count() or 4) - 1))) as ex:
        results = list(ex.map(lambda cf: run_crosshair(cf[0], cf[1], lines[cf[1]], tmo, cf[2]), jobs))
    known = [k for k in load_known() if k.get('property') == 'C10' and k.get('status') == 'known']
    violations, known_hit, incon, samples = [], {}, [], []
    confirmed = 0
    for r in results:
        name = f"{r['cls']}:{r['fn']}" + (''.join(f"[{k[4:].lower()}={v}]" for k, v in sorted(r['fix'].items())))
        if r['verdict'] == 'confirmed':
            confirmed += 1
            if len(samples) < 10:
                samples.append(dict(contract=name, verdict='Confirmed over all paths', seconds=round(r['time'], 1)))
        elif r['verdict'] == 'counterexample' and r.get('args') is not None:
            ok, how = replay(r['cls'], r['fn'], r['args'])
            if not ok:
                incon.append(f'{name}: counterexample {r["args"]} does not reproduce natively ({how})')
                continue
            d = os.path.join(ROOT, 'replays', 'C10')
            os.makedirs(d, exist_ok=True)
            blob = {'property': 'C10', 'class': r['cls'], 'contract': r['fn'], 'args': r['args'], 'how': how}
            path = os.path.join(d, f"{r['cls']}-{r['fn']}-{hashlib.sha1(r['args'].encode()).hexdigest()[:8]}.json")
            json.dump(blob, open(path, 'w'), indent=1)
            k = next((k for k in known if re.fullmatch(k['claim'], name) and re.search(k.get('detail', ''), r['args'])), None)
            if k:
                known_hit[k['id']] = (k, name, r['args'])
            else:
                violations.append((name, r['args'], how, path))
        else:
            incon.append(f"{name}: {r['verdict']} after {r['time']:.0f}s {r.get('exc', '')}")
    wall = time.time() - t0
    for k, name, args in known_hit.values():
        print(f"KNOWN-FINDING: property=C10 {k['id']}: {k['what']} [{name}({args})]")
    for name, args, how, path in violations:
        print(f'VIOLATION property=C10 replay={path}')
        print(f'  contract={name} args=({args}) native replay: {how}')
    print(f"[C10 {a.tier}] contracts={len(results)} confirmed={confirmed} inconclusive={len(incon)} violations={len(violations)} "
          f"known={len(known_hit)} wall={wall:.1f}s")
    for s in incon[:40]:
        print('  inconclusive:', s)
    if not a.only and not a.no_evidence:
        ev = dict(property_id='C10', tier=a.tier, seed=seed, level='other', wall_s=round(wall, 2), violations=len(violations),
                  coverage=dict(
                      explanation=('C10: CrossHair (symbolic execution of Python with z3) on contracts that drive the real SMUserList methods '
                                   'of each sequence class with symbolic ints (length n<=5, index, slice start/stop/step, operation selector, '
                                   'operand length) against Python list semantics; "Confirmed over all paths" = holds for the whole bounded '
                                   'domain; counterexamples are replayed natively.  Operation histories are covered by one inductive step '
                                   'from an arbitrary valid state (lengths staying <= 5).'),
                      evaluations=len(results), distinct_nontrivial=len(results),
                      rule='one case = one (class, contract) pair checked by CrossHair over its whole bounded integer domain',
                      obligations=len(results), discharged=confirmed, inconclusive=len(incon), inconclusive_list=incon,
                      classes=CLASSES[a.tier], contracts=FUNCS, per_condition_timeout_s=tmo,
                      bounds='n in 0..5, indices -8..8, slice start/stop in {None,-7..7}, step in {None, +-1..3}, operand length 1..3',
                      known_findings_matched=list(known_hit),
                      functions_encoded=['spatialmath.smuserlist.SMUserList.__getitem__/__setitem__/append/extend/insert/pop/arghandler/Empty/Alloc',
                                         'collections.UserList (inherited mutators)', 'Plucker/SpatialVector __getitem__/append overrides'],
                      samples=samples or [dict(note='no contract confirmed')], exhaustive=False,
                      solver='crosshair-tool (z3)'),
                  assumptions=['elements are concrete pairwise distinct arrays; only ints are symbolic',
                               'trusted: CrossHair, z3, CPython list semantics as the reference'])
        os.makedirs(os.path.join(ROOT, 'evidence'), exist_ok=True)
        json.dump(ev, open(os.path.join(ROOT, 'evidence', 'C10.json'), 'w'), indent=1)
    return 1 if violations else 0


if __name__ == '__main__':
    sys.exit(main())
