"""Replay of a solver counterexample against the real, unshimmed library in this (fresh)
interpreter: `python -m symreal.replay <file.json>`; prints `REPLAY-RESULT {json}`."""
import importlib
import json
import os
import sys
import traceback
import warnings

ROOT = os.path.dirname(os.path.dirname(os.path.abspath(__file__)))
if ROOT not in sys.path:
    sys.path.insert(0, ROOT)


def replay(blob):
    from symreal.api import H, AssumptionFailed
    hmod = importlib.import_module(f"harness.{blob['property'].lower()}")
    claim = hmod.REG.claims[blob['claim']]
    h = H('concrete', given=blob['inputs'], tol=claim.tol)
    out = dict(reproduced=False, status='ok', violations=[], inputs_used=None)
    warnings.simplefilter('ignore')
    try:
        claim.fn(h)
    except AssumptionFailed:
        out['status'] = 'assumption-failed'
        out['inputs_used'] = h.used
        return out
    except Exception as e:  # noqa: BLE001
        tb = traceback.extract_tb(e.__traceback__)
        where = next((f"{fr.filename}:{fr.lineno}" for fr in reversed(tb) if '/spatialmath/' in fr.filename), f"{tb[-1].filename}:{tb[-1].lineno}")
        h.violations.append((f'unexpected-exception:{type(e).__name__}', f'{e} @ {where}'[:300]))
    out['inputs_used'] = h.used
    out['violations'] = h.violations[:20]
    out['reproduced'] = bool(h.violations)
    out['checked'] = h.checked
    if blob.get('want_observed'):
        out['observed'] = observed_values(h)
    return out


def observed_values(h):
    """[(label, [floats])] of the left operands of every h.eq executed (translator validation)"""
    import numpy as np
    res = []
    for ob in h.observed:
        label, A = ob[0], ob[1]
        sc = ob[2] if len(ob) > 2 else 1.0
        sc = getattr(sc, 'val', sc)
        try:
            sc = max(1.0, abs(float(sc)))
        except Exception:  # noqa: BLE001
            sc = 1.0
        vals = []
        for x in np.asarray(A, dtype=object).ravel():
            v = getattr(x, 'val', x)
            try:
                vals.append(float(v))
            except Exception:  # noqa: BLE001
                vals.append(None)
        res.append((label, vals, sc))
    return res


if __name__ == '__main__' and sys.argv[1] == '--batch':
    # translator validation: many (claim, inputs) pairs natively in one interpreter
    with open(sys.argv[2]) as f:
        blobs = json.load(f)
    outs = []
    for b in blobs:
        try:
            outs.append(replay(b))
        except Exception as e:  # noqa: BLE001
            outs.append(dict(status='harness-error', error=f'{type(e).__name__}: {e}'))
    print('BATCH-RESULT ' + json.dumps(outs, default=str))
    sys.exit(0)

if __name__ == '__main__':
    with open(sys.argv[1]) as f:
        blob = json.load(f)
    try:
        r = replay(blob)
    except Exception as e:  # noqa: BLE001
        r = dict(reproduced=False, status='harness-error', violations=[], error=f'{type(e).__name__}: {e}', tb=traceback.format_exc()[-1200:])
    print('REPLAY-RESULT ' + json.dumps(r, default=str))
