"""Rebinding of module-level names in the spatialmath modules so that the *unmodified* library
functions accept `Term` scalars (DESIGN.md §3.2).  Nothing in /repo is edited; `install()`
is called in the harness process before the code under test runs."""
import math as _math
import sys
import types
import numpy as _np
import z3
from .core import (Term, SBool, NotEncodable, ctx, Ctx, sand, _sin, _cos, _tan, _sqrt, _atan2, _acos,
                   _asin, _atan, _exp, _log, rv)


def has_term(x):
    if isinstance(x, (Term, SBool)):
        return True
    if isinstance(x, _np.ndarray):
        return x.dtype == object and any(isinstance(v, (Term, SBool)) for v in x.ravel())
    if isinstance(x, (list, tuple)):
        return any(has_term(v) for v in x)
    return False


def _symbolic_active():
    return Ctx.cur is not None


# --------------------------------------------------------------------------- math

class MathProxy(types.ModuleType):
    def __init__(self):
        super().__init__('math')
        self.__dict__.update(_math.__dict__)
        self.__dict__.update(sin=_sin, cos=_cos, sqrt=_sqrt, tan=_tan, atan2=_atan2, acos=_acos,
                             asin=_asin, atan=_atan, exp=_exp, log=_log)


# --------------------------------------------------------------------------- numpy

def _objarr(a):
    return _np.asarray(a, dtype=object)


def det(M):
    n = M.shape[0]
    if n == 1:
        return M[0, 0]
    if n == 2:
        return M[0, 0] * M[1, 1] - M[0, 1] * M[1, 0]
    tot = 0
    for j in range(n):
        if isinstance(M[0, j], (int, float)) and M[0, j] == 0:
            continue
        minor = _np.delete(_np.delete(M, 0, axis=0), j, axis=1)
        tot = tot + ((-1) ** j) * M[0, j] * det(minor)
    return tot


def inv(M):
    n = M.shape[0]
    d = det(M)
    out = _np.empty((n, n), dtype=object)
    for i in range(n):
        for j in range(n):
            minor = _np.delete(_np.delete(M, j, axis=0), i, axis=1)
            cof = ((-1) ** (i + j)) * (det(minor) if n > 1 else 1)
            out[i, j] = cof / d
    return out


class LinalgProxy:
    def __getattr__(self, k):
        return getattr(_np.linalg, k)

    def det(self, M):
        M = _np.asarray(M)
        if M.dtype == object:
            return det(M)
        return _np.linalg.det(M)

    def inv(self, M):
        M = _np.asarray(M)
        if M.dtype == object:
            return inv(M)
        return _np.linalg.inv(M)

    def norm(self, x, ord=None, axis=None):
        x = _np.asarray(x)
        if x.dtype != object:
            return _np.linalg.norm(x, ord, axis)
        if ord not in (None, 2, 'fro') or axis is not None:
            raise NotEncodable('linalg.norm ord/axis')
        if ord == 2 and x.ndim != 1:
            raise NotEncodable('matrix 2-norm')
        tot = 0
        for v in x.ravel():
            tot = tot + v * v
        if isinstance(tot, Term):
            return tot.sqrt()
        return _math.sqrt(tot)

    def matrix_power(self, M, n):
        M = _np.asarray(M)
        if M.dtype != object:
            return _np.linalg.matrix_power(M, n)
        if n < 0:
            M = inv(M)
            n = -n
        R = _np.eye(M.shape[0], dtype=int).astype(object)
        for _ in range(n):
            R = R @ M
        return R


class RandomProxy:
    def __getattr__(self, k):
        return getattr(_np.random, k)

    def uniform(self, low=0.0, high=1.0, size=None):
        if not _symbolic_active() or not getattr(Ctx.cur, 'sym_random', False):
            return _np.random.uniform(low, high, size)
        c = ctx()
        n = 1 if size is None else int(_np.prod(size))
        out = []
        for _ in range(n):
            v = c.fresh('rnd')
            c.assumptions += [v >= rv(low), v <= rv(high)]
            c.inputs.append((str(v), 'real', v))
            out.append(Term(v))
        if size is None:
            return out[0]
        return _np.array(out, dtype=object).reshape(size)


def _close(a, b, rtol, atol):
    a, b = Term.lift(a), Term.lift(b)
    return abs(a - b) <= atol + rtol * abs(b)


class NPProxy:
    def __init__(self):
        self.linalg = LinalgProxy()
        self.random = RandomProxy()

    def __getattr__(self, k):
        return getattr(_np, k)

    # allocators: object arrays of exact ints while a symbolic context is active
    def zeros(self, shape, dtype=None, **kw):
        if not _symbolic_active():
            return _np.zeros(shape, dtype=dtype or float, **kw)
        a = _np.empty(shape, dtype=object)
        a.fill(0)
        return a

    def ones(self, shape, dtype=None, **kw):
        if not _symbolic_active():
            return _np.ones(shape, dtype=dtype or float, **kw)
        a = _np.empty(shape, dtype=object)
        a.fill(1)
        return a

    def eye(self, n, m=None, dtype=None, **kw):
        if not _symbolic_active():
            return _np.eye(n, m, dtype=dtype or float, **kw)
        return _np.eye(n, m, dtype=int).astype(object)

    def identity(self, n, dtype=None):
        if not _symbolic_active():
            return _np.identity(n, dtype=dtype or float)
        return _np.eye(n, dtype=int).astype(object)

    def array(self, obj, dtype=None, **kw):
        try:
            return _np.array(obj, dtype=dtype, **kw)
        except TypeError:
            if has_term(obj):
                return _np.array(obj, dtype=object, **kw)
            raise

    def asarray(self, obj, dtype=None, **kw):
        try:
            return _np.asarray(obj, dtype=dtype, **kw)
        except TypeError:
            if has_term(obj):
                return _np.asarray(obj, dtype=object, **kw)
            raise

    def pad(self, a, *args, **kw):
        # trot2 pads a float rotation and then writes the translation into it: keep the array able to hold Terms
        if _symbolic_active() and kw.get('mode', 'constant') == 'constant' and 'constant_values' not in kw:
            r = _np.pad(_objarr(a), *args, **kw)
            return r
        return _np.pad(a, *args, **kw)

    def isscalar(self, x):
        return isinstance(x, Term) or _np.isscalar(x)

    def sqrt(self, x):
        if isinstance(x, Term):
            return x.sqrt()
        return _np.sqrt(x)

    def abs(self, x):
        if isinstance(x, Term):
            return abs(x)
        return _np.abs(x)

    def mod(self, a, m):
        if isinstance(a, Term):
            return a % m
        if isinstance(a, _np.ndarray) and a.dtype == object:
            return _np.array([v % m for v in a.ravel()], dtype=object).reshape(a.shape)
        return _np.mod(a, m)

    def fmod(self, a, m):
        # C fmod: the result has the sign of the dividend (np.mod: of the divisor)
        if isinstance(a, Term):
            r = a % m
            if (a >= 0):
                return r
            if (r == 0):
                return r
            return r - m
        if isinstance(a, _np.ndarray) and a.dtype == object:
            return _np.array([self.fmod(v, m) for v in a.ravel()], dtype=object).reshape(a.shape)
        return _np.fmod(a, m)

    def clip(self, x, lo, hi):
        if isinstance(x, Term):
            lo_t, hi_t = Term.lift(lo), Term.lift(hi)
            c = Ctx.cur
            if c is not None and not c.concolic and x.const is None:
                # lemma: already inside [lo, hi] on this path (e.g. the dot product of two unit quaternions written as
                # the cosine of an atom) -> clip is the identity and the value keeps its polynomial form
                sv = z3.Solver()
                sv.set('timeout', 500)
                sv.add(*c.assumptions)
                sv.add(*c.path)
                sv.add(*c.div_guards)
                sv.add(z3.Or(x.e < lo_t.e, x.e > hi_t.e))
                if str(sv.check()) == 'unsat':
                    return x
            e = z3.If(x.e < lo_t.e, lo_t.e, z3.If(x.e > hi_t.e, hi_t.e, x.e))
            v = None if x.val is None else min(max(x.val, float(lo)), float(hi))
            return Term(e, None, v)
        if isinstance(x, _np.ndarray) and x.dtype == object:
            return _np.array([self.clip(v, lo, hi) for v in x.ravel()], dtype=object).reshape(x.shape)
        return _np.clip(x, lo, hi)

    def all(self, x, *a, **kw):
        if isinstance(x, SBool):
            return x
        arr = _np.asarray(x)
        if arr.dtype == object and not a and not kw and any(isinstance(v, SBool) for v in arr.ravel()):
            return sand(*[v if isinstance(v, SBool) else bool(v) for v in arr.ravel()])
        return _np.all(x, *a, **kw)

    def allclose(self, a, b, rtol=1e-05, atol=1e-08):
        if not (has_term(a) or has_term(b)):
            return _np.allclose(_np.asarray(a, dtype=float) if _np.asarray(a).dtype == object else a,
                                _np.asarray(b, dtype=float) if _np.asarray(b).dtype == object else b, rtol, atol)
        A, B = _np.broadcast_arrays(_objarr(a), _objarr(b))
        return sand(*[_close(x, y, rtol, atol) for x, y in zip(A.ravel(), B.ravel())])

    def isclose(self, a, b, rtol=1e-05, atol=1e-08):
        if not (has_term(a) or has_term(b)):
            return _np.isclose(a, b, rtol, atol)
        if isinstance(a, _np.ndarray) or isinstance(b, _np.ndarray):
            A, B = _np.broadcast_arrays(_objarr(a), _objarr(b))
            return _np.array([_close(x, y, rtol, atol) for x, y in zip(A.ravel(), B.ravel())], dtype=object).reshape(A.shape)
        return _close(a, b, rtol, atol)


# --------------------------------------------------------------------------- sympy / Matrix

def _make_sympy_shim():
    import sympy as _sympy

    class SympyShim:
        Expr = (Term, _sympy.Expr)

        @staticmethod
        def sin(x): return _sin(x) if isinstance(x, Term) else _sympy.sin(x)

        @staticmethod
        def cos(x): return _cos(x) if isinstance(x, Term) else _sympy.cos(x)

        @staticmethod
        def sqrt(x): return _sqrt(x) if isinstance(x, Term) else _sympy.sqrt(x)

        @staticmethod
        def simplify(x): return x if isinstance(x, Term) else _sympy.simplify(x)

        def __getattr__(self, k):
            return getattr(_sympy, k)
    return SympyShim


class MatrixShim:
    def __init__(self, m):
        self.m = _np.asarray(m, dtype=object)

    def det(self):
        return det(self.m)


def _float_shim(x=0.0):
    if isinstance(x, Term):
        return x
    return float(x)


def _proved_zero(c, e):
    sv = z3.Solver()
    sv.set('timeout', 1000)
    sv.add(*c.assumptions)
    sv.add(*c.path)
    sv.add(*c.div_guards)
    sv.add(e != 0)
    return str(sv.check()) == 'unsat'


def logm_planar(A):
    """Model of scipy.linalg.logm (documented contract: the principal matrix logarithm) for the only inputs the library
    passes: SO(2) and SE(2) matrices.  The rotation structure of the argument is proved on the current path (else the call
    is outside the encoding); the result is the closed form  log [[c,-s],[s,c]] = [[0,-th],[th,0]], th = atan2(s, c),
    and for SE(2) the translation part V(th)^-1 t.  Validated against the real LAPACK routine by the translator-validation
    stage.  The half-turn (eigenvalue -1, where the principal logarithm is not defined) is excluded by a guard."""
    A = _np.asarray(A, dtype=object)
    n = A.shape[0]
    if A.shape not in ((2, 2), (3, 3)):
        raise NotEncodable('scipy.linalg.logm of a %s matrix' % (A.shape,))
    c = ctx()
    co, si = Term.lift(A[0, 0]), Term.lift(A[1, 0])
    if c.concolic:
        fl = _np.array([[float(getattr(v, 'val', v)) for v in row] for row in A])
        L = _np.real(__import__('scipy').linalg.logm(fl))
        return _np.array([[Term(z3.RealVal(0), None, float(v)) for v in row] for row in L], dtype=object)
    ok = _proved_zero(c, Term.lift(A[1, 1]).e - co.e) and _proved_zero(c, Term.lift(A[0, 1]).e + si.e) and \
        _proved_zero(c, co.e * co.e + si.e * si.e - 1)
    if n == 3:
        ok = ok and all(isinstance(v, (int, float)) or Term.lift(v).const is not None for v in A[2, :]) and \
            [float(getattr(Term.lift(v), 'const', v)) for v in A[2, :]] == [0.0, 0.0, 1.0]
    if not ok:
        raise NotEncodable('scipy.linalg.logm: argument not proved to be an SO(2)/SE(2) matrix on this path')
    if (co == -1):
        raise NotEncodable('scipy.linalg.logm at the half turn (principal logarithm undefined)')
    th = _atan2(si, co)
    L = _np.empty((n, n), dtype=object)
    L.fill(0)
    L[0, 1], L[1, 0] = -th, th
    if n == 3:
        tx, ty = A[0, 2], A[1, 2]
        if (co == 1):
            L[0, 2], L[1, 2] = tx, ty
        else:
            hh = th * si / (2 * (1 - co))
            L[0, 2] = hh * tx + th / 2 * ty
            L[1, 2] = -th / 2 * tx + hh * ty
    return L


_installed = False


def install():
    """rebind module globals of every loaded spatialmath module"""
    global _installed
    if _installed:
        return
    import spatialmath  # noqa: F401
    import spatialmath.base as base
    from spatialmath.base import symbolic, argcheck, vectors, transformsNd, transforms2d
    import spatialmath.quaternion as quatmod
    _installed = True
    mp = MathProxy()
    npx = NPProxy()
    for name, mod in list(sys.modules.items()):
        if not name.startswith('spatialmath') or mod is None:
            continue
        if name.startswith('spatialmath.base.animate') or name == 'spatialmath.timing':
            continue
        if getattr(mod, 'np', None) is _np:
            mod.np = npx
        if getattr(mod, 'math', None) is _math:
            mod.math = mp
    symbolic.symtype = symbolic.symtype + (Term,)
    argcheck._scalartypes = argcheck._scalartypes + (Term,)
    shim = _make_sympy_shim()
    symbolic.sympy = shim
    vectors.sympy = shim
    transformsNd.Matrix = MatrixShim
    quatmod.float = _float_shim

    import scipy as _scipy

    class _ScipyLinalg:
        def __getattr__(self, k):
            return getattr(_scipy.linalg, k)

        def logm(self, A, *a, **kw):
            if has_term(A) or (_symbolic_active() and getattr(A, 'dtype', None) == object):
                return logm_planar(A)
            return _scipy.linalg.logm(A, *a, **kw)

    class _ScipyProxy:
        linalg = _ScipyLinalg()

        def __getattr__(self, k):
            return getattr(_scipy, k)

    transforms2d.scipy = _ScipyProxy()
    return dict(math=mp, np=npx)


STUBS = [
    "math.{sin,cos,tan,sqrt,atan2,acos,asin,atan,exp,log}: real functions axiomatised (DESIGN 3.4)",
    "np.{zeros,ones,eye,identity,pad}: object arrays of exact ints while symbolic",
    "np.linalg.{norm,det,inv,matrix_power}: sqrt-of-squares / cofactor / adjugate / repeated product",
    "np.{allclose,isclose,clip,all,mod,fmod,isscalar,array,asarray}: Term-aware equivalents",
    "sympy.{sin,cos,sqrt,Expr}, sympy.Matrix.det: dispatch on Term",
    "quaternion.float: identity on Term",
    "scipy.linalg.logm: closed-form principal logarithm for arguments proved SO(2)/SE(2) on the path (half turn excluded); other arguments not encodable",
]
