#!/bin/sh
# Build the overlay venv (/verif/.venv) offline: /venv's packages + z3/cvc5/crosshair from the wheelhouse.
set -e
cd "$(dirname "$0")"
if [ -x .venv/bin/python ] && .venv/bin/python -c "import z3, crosshair, numpy" 2>/dev/null; then
    exit 0
fi
rm -rf .venv
/venv/bin/python -m venv .venv
SP=$(.venv/bin/python -c "import site; print(site.getsitepackages()[0])")
printf "import site; site.addsitedir('/venv/lib/python3.12/site-packages')\n" > "$SP/_verif_overlay.pth"
PIP_NO_INDEX=1 .venv/bin/python -m pip install -q --no-index --find-links /opt/veriftools/wheels z3-solver cvc5 crosshair-tool
.venv/bin/python -c "import z3, crosshair, numpy; print('overlay ok', z3.get_version_string())"
