"""C15 Argument forms and units are interchangeable."""
import math
import numpy as np
from symreal.api import Registry
from spatialmath import base, SO2, SE2, SO3, SE3, Quaternion, UnitQuaternion, Twist3, Twist2, Plucker
from .common import *

REG = Registry('C15')
claim = REG.claim
EXPLANATION = ("C15: every base function / constructor / method with a vector, angle, unit or order argument is executed with the "
               "same symbolic element values packed as list, tuple, 1-D array, row and column; with separate scalars vs packed; "
               "with unit='deg' on a*180/pi vs 'rad' on a; with wrong lengths 0..8 and misspelt orders/units.  Results must be "
               "structurally identical (same operation DAG => bitwise equal), wrong lengths / names must raise on every path.")
BOUNDS = "element values symbolic (free reals / angle atoms); container form, length 0..8, unit and order names enumerated"
TIMEOUT = {'quick': 8, 'thorough': 60}

FORMS = {
    'list': lambda h, v: list(v),
    'tuple': lambda h, v: tuple(v),
    'array1d': lambda h, v: h.arr(list(v)),
    'row': lambda h, v: h.arr([list(v)]),
    'column': lambda h, v: h.arr([[x] for x in v]),
}
CLASS_FORMS = ('list', 'tuple', 'array1d')

# (name, callable(*vector_args), lengths of the vector arguments)
BASE_VEC = {
    'skew3': (lambda v: base.skew(v), (3,)),
    'skew1': (lambda v: base.skew(v), (1,)),
    'skewa6': (lambda v: base.skewa(v), (6,)),
    'skewa3': (lambda v: base.skewa(v), (3,)),
    'unitvec': (lambda v: base.unitvec(v), (3,)),
    'colvec': (lambda v: base.colvec(v), (3,)),
    'transl': (lambda v: base.transl(v), (3,)),
    'transl2': (lambda v: base.transl2(v), (2,)),
    'trotx-t': (lambda v: base.trotx(0.3, t=v), (3,)),
    'trot2-t': (lambda v: base.trot2(0.3, t=v), (2,)),
    'xyt2tr': (lambda v: base.xyt2tr(v), (3,)),
    'rpy2r': (lambda v: base.rpy2r(v), (3,)),
    'rpy2tr': (lambda v: base.rpy2tr(v), (3,)),
    'eul2r': (lambda v: base.eul2r(v), (3,)),
    'eul2tr': (lambda v: base.eul2tr(v), (3,)),
    'angvec2r': (lambda v: base.angvec2r(0.3, v), (3,)),
    'angvec2tr': (lambda v: base.angvec2tr(0.3, v), (3,)),
    'oa2r': (lambda o, a: base.oa2r(o, a), (3, 3)),
    'trexp6': (lambda v: base.trexp(v), (6,)),
    'trexp3': (lambda v: base.trexp(v), (3,)),
    'trexp2-3': (lambda v: base.trexp2(v), (3,)),
    'rodrigues': (lambda v: base.rodrigues(v), (3,)),
    'delta2tr': (lambda v: base.delta2tr(v), (6,)),
    'rt2tr': (lambda v: base.rt2tr(np.eye(3), v), (3,)),
    'pure': (lambda v: base.pure(v), (3,)),
    'qnorm': (lambda q: base.qnorm(q), (4,)),
    'unit': (lambda q: base.unit(q), (4,)),
    'conj': (lambda q: base.conj(q), (4,)),
    'q2r': (lambda q: base.q2r(q), (4,)),
    'q2v': (lambda q: base.q2v(q), (4,)),
    'v2q': (lambda v: base.v2q(v), (3,)),
    'matrix': (lambda q: base.matrix(q), (4,)),
    'qqmul': (lambda p, q: base.qqmul(p, q), (4, 4)),
    'inner': (lambda p, q: base.inner(p, q), (4, 4)),
    'qvmul': (lambda q, v: base.qvmul(q, v), (4, 3)),
    'qpow': (lambda q: base.qpow(q, 2), (4,)),
    'dot': (lambda q, w: base.dot(q, w), (4, 3)),
    'dotb': (lambda q, w: base.dotb(q, w), (4, 3)),
    'slerp': (lambda p, q: base.slerp(p, q, 0), (4, 4)),
    'unittwist': (lambda v: base.unittwist(v), (6,)),
    'unittwist2': (lambda v: base.unittwist2(v), (3,)),
    'isunittwist': (lambda v: base.isunittwist(v), (6,)),
    'getvector': (lambda v: base.getvector(v), (5,)),
    'getvector-dim': (lambda v: base.getvector(v, 4), (4,)),
}
# these iterate over / index their argument directly: only the 1-D forms are meaningful for them
ONE_D_ONLY = {'slerp'}
QUICK_BASE = {'skew3', 'skewa6', 'transl', 'transl2', 'trotx-t', 'rpy2r', 'eul2tr', 'angvec2r', 'oa2r', 'trexp6', 'rodrigues',
              'pure', 'unit', 'q2r', 'qqmul', 'qvmul', 'dot', 'unittwist', 'getvector', 'xyt2tr', 'delta2tr', 'colvec', 'unitvec',
              'qnorm', 'conj', 'v2q', 'trexp2-3', 'rt2tr', 'matrix'}


def FUNCS():
    return [base.getvector, base.isvector, base.getunit, base.ismatrix, base.getmatrix, base.skew, base.skewa, base.transl,
            base.transl2, base.rpy2r, base.eul2r, base.angvec2r, base.oa2r, base.trexp, base.rodrigues, base.qqmul, base.qvmul,
            base.unit, base.q2r, base.tr2rpy, base.tr2eul, base.tr2angvec, base.tr2xyt, base.rotx, base.rot2, SO3.RPY, SO3.Eul,
            SO3.AngVec, SE3.__init__, SE2.__init__, UnitQuaternion.__init__, Quaternion.__init__, Twist3.__init__]


def vecs(h, lens, nonzero=True):
    out = []
    for k, n in enumerate(lens):
        v = h.vec(f'v{k}_', n, -5, 5)
        if nonzero and n > 0:
            h.assume(nsq(v) >= 0.01)
        out.append(v)
    return out


for _name, (_fn, _lens) in BASE_VEC.items():
    @claim(f'forms:{_name}')
    def _(h, name=_name, fn=_fn, lens=_lens):
        vs = vecs(h, lens)
        if name == 'v2q':
            h.assume(nsq(vs[0]) <= 0.9)
        if name == 'oa2r':
            h.assume(nsq(cross(vs[0], vs[1])) >= 0.01)
        ref = fn(*[FORMS['array1d'](h, v) for v in vs])
        for form in FORMS:
            if form == 'array1d' or (name in ONE_D_ONLY and form in ('row', 'column')):
                continue
            r = fn(*[FORMS[form](h, v) for v in vs])
            if isinstance(ref, tuple):
                for k in range(len(ref)):
                    h.same(f'{form}[{k}]', r[k], ref[k])
            elif ref is None or isinstance(ref, (bool, np.bool_)) or type(ref).__name__ == 'SBool':
                h.true(f'{form}: same truth value', _same_truth(r, ref))
            else:
                h.same(form, r, ref)

    @claim(f'wrong-length:{_name}')
    def _(h, name=_name, fn=_fn, lens=_lens):
        if name in ('getvector', 'colvec', 'unitvec'):
            return          # accept any length
        ok = {'skew3': {1, 3}, 'skew1': {1, 3}, 'skewa6': {3, 6}, 'skewa3': {3, 6}, 'trexp6': {3, 6}, 'trexp3': {3, 6},
              'trexp2-3': {1, 3}, 'rodrigues': {1, 3}}.get(name)
        for n in range(0, 9):
            good = ok if ok is not None else {lens[0]}
            if n in good:
                continue
            bad = h.arr([h.real(f'b{n}_{i}', -5, 5) for i in range(n)]) if n else h.arr([])
            rest = vecs(h, lens[1:]) if len(lens) > 1 else []
            h.raises(f'length {n} rejected', lambda: fn(bad, *rest))


def _same_truth(a, b):
    from .c09 import _beq
    if a is None or b is None:
        return a is None and b is None
    return _beq(a, b)


# ----------------------------------------------------------------------------- class constructors / methods: list, tuple, 1-D array

CLASS_VEC = {
    'SO3.RPY': (lambda v: SO3.RPY(v).A, (3,)),
    'SO3.Eul': (lambda v: SO3.Eul(v).A, (3,)),
    'SO3.AngVec': (lambda v: SO3.AngVec(0.3, v).A, (3,)),
    'SO3.EulerVec': (lambda v: SO3.EulerVec(v).A, (3,)),
    'SO3.OA': (lambda o, a: SO3.OA(o, a).A, (3, 3)),
    'SO3.Exp': (lambda v: SO3.Exp(v).A, (3,)),
    'SE3(v)': (lambda v: SE3(v).A, (3,)),
    'SE3.Rx-t': (lambda v: SE3.Rx(0.3, t=v).A, (3,)),
    'SE3.RPY': (lambda v: SE3.RPY(v).A, (3,)),
    'SE3.Exp': (lambda v: SE3.Exp(v).A, (6,)),
    'SE3.Delta': (lambda v: SE3.Delta(v).A, (6,)),
    'SE2(xyt)': (lambda v: SE2(v).A, (3,)),
    'SE2(xy)': (lambda v: SE2(v).A, (2,)),
    'UQ(v4)': (lambda v: UnitQuaternion(v).vec, (4,)),
    'UQ(s,v)': (lambda v: UnitQuaternion(0.5, v).vec, (3,)),
    'UQ.RPY': (lambda v: UnitQuaternion.RPY(v).vec, (3,)),
    'UQ.AngVec': (lambda v: UnitQuaternion.AngVec(0.3, v).vec, (3,)),
    'UQ.EulerVec': (lambda v: UnitQuaternion.EulerVec(v).vec, (3,)),
    'Quaternion(v4)': (lambda v: Quaternion(v).vec, (4,)),
    'Quaternion(s,v)': (lambda v: Quaternion(0.5, v).vec, (3,)),
    'Quaternion.Pure': (lambda v: Quaternion.Pure(v).vec, (3,)),
    'Twist3(v6)': (lambda v: Twist3(v).S, (6,)),
    'Twist3(v,w)': (lambda v, w: Twist3(v, w).S, (3, 3)),
    'Twist3.Revolute': (lambda a, q: Twist3.Revolute(a, q).S, (3, 3)),
    'Twist3.Prismatic': (lambda a: Twist3.Prismatic(a).S, (3,)),
    'Twist2(v3)': (lambda v: Twist2(v).S, (3,)),
    'Plucker.PQ': (lambda p, q: Plucker.PQ(p, q).vec, (3, 3)),
    'Plucker.PointDir': (lambda p, d: Plucker.PointDir(p, d).vec, (3, 3)),
    'SO3*point': (lambda v: SO3.Rx(0.3) * v, (3,)),
    'UQ*point': (lambda v: UnitQuaternion.Rx(0.3) * v, (3,)),
}
QUICK_CLASS = {'SO3.RPY', 'SO3.AngVec', 'SE3(v)', 'SE3.Rx-t', 'SE2(xyt)', 'UQ(v4)', 'UQ(s,v)', 'Quaternion(v4)', 'Twist3(v6)',
               'Twist3(v,w)', 'Twist3.Revolute', 'Plucker.PQ', 'SO3.EulerVec', 'SE3.Exp', 'SO3*point', 'SE3.Delta', 'SO3.Eul'}

for _name, (_fn, _lens) in CLASS_VEC.items():
    @claim(f'class-forms:{_name}')
    def _(h, name=_name, fn=_fn, lens=_lens):
        vs = vecs(h, lens)
        if name.endswith('.OA'):
            h.assume(nsq(cross(vs[0], vs[1])) >= 0.01)      # documented: O and A must not be parallel
        ref = fn(*[FORMS['array1d'](h, v) for v in vs])
        for form in ('list', 'tuple'):
            h.same(form, fn(*[FORMS[form](h, v) for v in vs]), ref)


# ----------------------------------------------------------------------------- separate scalars vs packed vector

@claim('scalars-vs-packed')
def _(h):
    x, y, z = h.real('x', -5, 5), h.real('y', -5, 5), h.real('z', -5, 5)
    a, b, c = h.angle('a'), h.angle('b'), h.angle('c')
    h.same('transl', base.transl(x, y, z), base.transl([x, y, z]))
    h.same('transl2', base.transl2(x, y), base.transl2([x, y]))
    h.same('rpy2r', base.rpy2r(a, b, c), base.rpy2r([a, b, c]))
    h.same('rpy2tr', base.rpy2tr(a, b, c), base.rpy2tr([a, b, c]))
    h.same('eul2r', base.eul2r(a, b, c), base.eul2r([a, b, c]))
    h.same('eul2tr', base.eul2tr(a, b, c), base.eul2tr([a, b, c]))
    h.same('SE3(x,y,z)', SE3(x, y, z).A, SE3([x, y, z]).A)
    h.same('SE2(x,y,theta)', SE2(x, y, a).A, SE2([x, y, a]).A)
    h.same('SE2(x,y)', SE2(x, y).A, SE2([x, y]).A)
    h.same('xyt2tr vs trot2', base.xyt2tr([x, y, a]), base.trot2(a, t=[x, y]))


# ----------------------------------------------------------------------------- degrees vs radians

DEG_IN = {
    'rotx': lambda a, u: base.rotx(a, unit=u), 'roty': lambda a, u: base.roty(a, unit=u), 'rotz': lambda a, u: base.rotz(a, unit=u),
    'trotx': lambda a, u: base.trotx(a, unit=u), 'troty': lambda a, u: base.troty(a, unit=u), 'trotz': lambda a, u: base.trotz(a, unit=u),
    'rot2': lambda a, u: base.rot2(a, unit=u), 'trot2': lambda a, u: base.trot2(a, unit=u),
    'xyt2tr': lambda a, u: base.xyt2tr([1, 2, a], unit=u),
    'angvec2r': lambda a, u: base.angvec2r(a, [0, 0, 1], unit=u), 'angvec2tr': lambda a, u: base.angvec2tr(a, [0, 0, 1], unit=u),
    'SO2': lambda a, u: SO2(a, unit=u).A, 'SE2': lambda a, u: SE2(1, 2, a, unit=u).A,
    'SO3.Rx': lambda a, u: SO3.Rx(a, unit=u).A, 'SO3.Ry': lambda a, u: SO3.Ry(a, unit=u).A, 'SO3.Rz': lambda a, u: SO3.Rz(a, unit=u).A,
    'SE3.Rx': lambda a, u: SE3.Rx(a, unit=u).A, 'SE3.Rz': lambda a, u: SE3.Rz(a, unit=u).A,
    'SO3.AngVec': lambda a, u: SO3.AngVec(a, [0, 0, 1], unit=u).A,
    'UQ.Rx': lambda a, u: UnitQuaternion.Rx(2 * a, unit=u).vec, 'UQ.Rz': lambda a, u: UnitQuaternion.Rz(2 * a, unit=u).vec,
    'UQ.AngVec': lambda a, u: UnitQuaternion.AngVec(2 * a, [0, 0, 1], unit=u).vec,
}

BAD_UNITS = ('grad', 'degrees', 'Deg', 'DEG', '', 'de', 'ra', 'radians', 'rad ')

for _name, _fn in DEG_IN.items():
    @claim(f'deg-in:{_name}')
    def _(h, fn=_fn):
        a = h.angle('a')
        h.same('deg(a*180/pi) = rad(a)', fn(h.deg(a), 'deg'), fn(a, 'rad'))
        for bad in BAD_UNITS:
            h.raises(f'unknown unit {bad!r} rejected', lambda: fn(a, bad), ValueError)


DEG3 = {
    'rpy2r': lambda v, u: base.rpy2r(v, unit=u), 'rpy2tr': lambda v, u: base.rpy2tr(v, unit=u), 'eul2r': lambda v, u: base.eul2r(v, unit=u),
    'eul2tr': lambda v, u: base.eul2tr(v, unit=u), 'SO3.RPY': lambda v, u: SO3.RPY(v, unit=u).A, 'SO3.Eul': lambda v, u: SO3.Eul(v, unit=u).A,
    'SE3.RPY': lambda v, u: SE3.RPY(v, unit=u).A, 'SE3.Eul': lambda v, u: SE3.Eul(v, unit=u).A,
    'UQ.RPY-deg-only-structure': None,
}

for _name, _fn in DEG3.items():
    if _fn is None:
        continue

    @claim(f'deg-in:{_name}')
    def _(h, fn=_fn):
        a, b, c = h.angle('a'), h.angle('b'), h.angle('c')
        h.same('deg = rad', fn([h.deg(a), h.deg(b), h.deg(c)], 'deg'), fn([a, b, c], 'rad'))
        for bad in BAD_UNITS:
            h.raises(f'unknown unit {bad!r} rejected', lambda: fn([a, b, c], bad), ValueError)


@claim('deg-out:tr2xyt')
def _(h):
    T, R, t, th = se2(h, 'T', 10)
    r, d = base.tr2xyt(T), base.tr2xyt(T, unit='deg')
    h.eq('x, y unchanged', d[:2], r[:2])
    h.eq('theta in degrees', d[2], r[2] * (180 / math.pi), scale=180)


@claim('deg-out:tr2angvec')
def _(h):
    R, th = rot_axis(h, 'th', AXES['z'], 0.1, 3)
    tr, vr = base.tr2angvec(R)
    td, vd = base.tr2angvec(R, unit='deg')
    h.eq('theta in degrees', td, tr * (180 / math.pi), scale=180)
    h.same('axis unchanged', vd, vr)


# ----------------------------------------------------------------------------- orders

for _o in ('zyx', 'xyz', 'yxz', 'vehicle', 'arm', 'camera'):
    @claim(f'order-alias:{_o}')
    def _(h, o=_o):
        alias = {'vehicle': 'zyx', 'arm': 'xyz', 'camera': 'yxz'}.get(o, o)
        a, b, c = h.angle('a'), h.angle('b'), h.angle('c')
        h.same('rpy2r alias', base.rpy2r(a, b, c, order=o), base.rpy2r(a, b, c, order=alias))
        h.same('SO3.RPY', SO3.RPY([a, b, c], order=o).A, base.rpy2r(a, b, c, order=alias))


@claim('misspelt-orders-rejected')
def _(h):
    a, b, c = h.angle('a'), h.angle('b'), h.angle('c')
    R, _ = rot_quat(h, 'R')
    for bad in ('zxy', 'ZYX', 'xzy', '', 'vehicl', 'rpy', 'x', 'yx', 'xz', 'zy', 'cam', 'ar', 'arm ', 'xyzz', 'zyxvehicle'):
        h.raises(f'rpy2r {bad!r}', lambda: base.rpy2r(a, b, c, order=bad), ValueError)
        h.raises(f'rpy2tr {bad!r}', lambda: base.rpy2tr(a, b, c, order=bad), ValueError)
        h.raises(f'tr2rpy {bad!r}', lambda: base.tr2rpy(R, order=bad), ValueError)
        h.raises(f'SO3.RPY {bad!r}', lambda: SO3.RPY([a, b, c], order=bad), ValueError)
        h.raises(f'SE3.RPY {bad!r}', lambda: SE3.RPY([a, b, c], order=bad), ValueError)
        h.raises(f'UnitQuaternion.RPY {bad!r}', lambda: UnitQuaternion.RPY([a, b, c], order=bad), ValueError)
        h.raises(f'SO3.rpy {bad!r}', lambda: SO3(R, check=False).rpy(order=bad), ValueError)


# ----------------------------------------------------------------------------- int vs float elements

@claim('int-vs-float-elements')
def _(h):
    k = h.real('k', 0.5, 2)          # keeps the claim symbolic; the typed constants are the point
    for nm, f in (('skew', base.skew), ('transl', base.transl), ('pure', base.pure), ('unitvec', base.unitvec), ('rpy2r', base.rpy2r),
                  ('SE3', lambda v: SE3(v).A), ('Quaternion.Pure', lambda v: Quaternion.Pure(v).vec)):
        h.eq(nm, np.asarray(f([1, 2, 3])) * k, np.asarray(f([1.0, 2.0, 3.0])) * k)
    h.eq('rotx', base.rotx(1) * k, base.rotx(1.0) * k)
    h.eq('trotx t', base.trotx(1, t=[1, 2, 3]) * k, base.trotx(1.0, t=[1.0, 2.0, 3.0]) * k)
    h.eq('qqmul', base.qqmul([1, 2, 3, 4], [5, 6, 7, 8]) * k, base.qqmul([1.0, 2.0, 3.0, 4.0], [5.0, 6.0, 7.0, 8.0]) * k)


# ----------------------------------------------------------------------------- angles RETURNED in degrees, single- and multi-valued receivers

DEG_OUT = {
    'SO3.rpy': lambda X, u: X.rpy(unit=u), 'SO3.rpy-xyz': lambda X, u: X.rpy(unit=u, order='xyz'), 'SO3.eul': lambda X, u: X.eul(unit=u),
    'SO3.eul-flip': lambda X, u: X.eul(unit=u, flip=True),
}

for _name, _f in DEG_OUT.items():
    for _m in (1, 2):
        @claim(f'deg-out:{_name}:len{_m}')
        def _(h, f=_f, m=_m):
            Rs = [h.arr(rotz_ref(h, h.angle(f'a{i}'))) for i in range(m)]
            for cls, mk in ((SO3, lambda R: R), (SE3, lambda R: hom(h, R, [1, 2, 3]))):
                X = cls([mk(R) for R in Rs] if m > 1 else mk(Rs[0]), check=False)
                r, d = np.asarray(f(X, 'rad')), np.asarray(f(X, 'deg'))
                h.true(f'{cls.__name__}: same shape', r.shape == d.shape)
                if r.shape == d.shape:
                    h.eq(f'{cls.__name__}: deg = rad * 180/pi', d, r * (180 / math.pi), tol=1e-9, scale=180)


@claim('deg-out:UnitQuaternion')
def _(h):
    s, c = h.sincos(h.angle('hf'))
    q = UnitQuaternion(h.arr([c, 0, 0, s]))
    for nm, f in (('rpy', lambda u: q.rpy(unit=u)), ('eul', lambda u: q.eul(unit=u))):
        h.eq(f'{nm}: deg = rad * 180/pi', f('deg'), np.asarray(f('rad')) * (180 / math.pi), tol=1e-9, scale=180)


@claim('deg-out:SO2-SE2')
def _(h):
    for m in (1, 2):
        Rs = [h.arr(rot2_ref(h, h.angle(f'a{m}{i}'))) for i in range(m)]
        X = SO2(Rs if m > 1 else Rs[0], check=False)
        r, d = X.theta(), X.theta(unit='deg')
        h.eq(f'SO2.theta len {m}', np.asarray(d, dtype=object), np.asarray(r, dtype=object) * (180 / math.pi), tol=1e-9, scale=180)


# ----------------------------------------------------------------------------- a scalar angle where one angle or a vector of angles is documented

from spatialmath import Twist3 as _Tw3      # noqa: E402

for _axn in ('Rx', 'Ry', 'Rz'):
    @claim(f'scalar-angle:Twist3.{_axn}')
    def _(h, axn=_axn):
        """Twist3.Rx/Ry/Rz document a float angle (and a vector of angles): the scalar form equals the one-element vector
        form, in radians and in degrees"""
        a = h.angle('a', -6.29, 6.29)
        f = getattr(_Tw3, axn)
        h.same('scalar = [scalar]', f(a).S, f([a]).S)
        h.same('degrees, scalar', f(h.deg(a), 'deg').S, f([a]).S)
        h.true('single-valued', len(f(a)) == 1)
        two = f([a, 0.5])
        h.true('two angles, two values', len(two) == 2)
