"""C09 Sequence broadcasting: element-wise results and strict length rules."""
import operator
import numpy as np
from symreal.api import Registry
from spatialmath import base, SO2, SE2, SO3, SE3, Quaternion, UnitQuaternion, Twist2, Twist3
from spatialmath.super_pose import SMPose
from spatialmath.smuserlist import SMUserList
from .common import *

REG = Registry('C09')
claim = REG.claim
EXPLANATION = ("C09: every vectorised operator and per-value method executed on objects holding m and n distinct symbolic "
               "members (own variables per element); result length and element i compared (structurally, else by z3) with the "
               "single-valued operation on the i-th elements; unequal lengths > 1 must raise ValueError.")
BOUNDS = "lengths (m, n): quick {1,2,3}^2, thorough 1..5 squared; elements: rotation about z by an own angle atom + own translation / components"
TIMEOUT = {'quick': 8, 'thorough': 60}


def FUNCS():
    return [SMPose._op2, SMUserList.binop, SMUserList.unop, SMPose.__mul__, SMPose.__truediv__, SMPose.__add__, SMPose.__sub__,
            SMPose.__eq__, SMPose.__ne__, SMPose.__pow__, SMPose.log, SMPose.det, SMPose.interp, SO3.inv, SE3.inv, SO2.inv,
            SE2.inv, SO3.R.fget, SE3.t.fget, SO3.rpy, SO3.eul, SO2.theta, SE2.xyt, Quaternion.__mul__, Quaternion.conj,
            Quaternion.norm, Quaternion.s.fget, Quaternion.v.fget, UnitQuaternion.inv, Twist3.__mul__, Twist3.__rmul__, Twist3.inv, Twist2.__mul__, Twist2.exp, Twist3.exp]


def elem(h, cls, tag):
    """matrix / vector value of one distinct element"""
    if cls is SO2:
        return h.arr(rot2_ref(h, h.angle(tag + 'a')))
    if cls is SE2:
        return hom(h, rot2_ref(h, h.angle(tag + 'a')), h.vec(tag + 't', 2, -1e3, 1e3))
    # left operands (tag A...) rotate about x, right operands about z: products do not commute, so a swapped operand
    # order or a reused wrong element is visible
    rot3 = rotx_ref if tag.startswith('A') else rotz_ref
    if cls is SO3:
        return h.arr(rot3(h, h.angle(tag + 'a')))
    if cls is SE3:
        return hom(h, rot3(h, h.angle(tag + 'a')), h.vec(tag + 't', 3, -1e3, 1e3))
    if cls is Quaternion:
        return h.vec(tag + 'q', 4, -10, 10)
    if cls is UnitQuaternion:
        s, c = h.sincos(h.angle(tag + 'h'))
        return h.arr([c, s, 0, 0]) if tag.startswith('A') else h.arr([c, 0, 0, s])
    if cls is Twist3:
        # symbolic moment, concrete rotational part (distinct per element, about x for left and z for right operands):
        # the composition exp/log then branches on concrete numbers only, and operand order / element reuse stay visible
        v = h.vec(tag + 's', 3, -1, 1)
        k = 0.3 + 0.17 * (int(tag[1:]) if tag[1:].isdigit() else 0)
        return h.arr([v[0], v[1], v[2], k, 0, 0]) if tag.startswith('A') else h.arr([v[0], v[1], v[2], 0, 0, k + 0.4])
    if cls is Twist2:
        # symbolic moment, concrete distinct rotational part: planar motions with translation do not commute
        v = h.vec(tag + 's', 2, -1, 1)
        k = 0.3 + 0.17 * (int(tag[1:]) if tag[1:].isdigit() else 0)
        return h.arr([v[0], v[1], k if tag.startswith('A') else -(k + 0.4)])
    raise KeyError(cls)


def seq(h, cls, tag, n):
    vals = [elem(h, cls, f'{tag}{i}') for i in range(n)]
    if cls in (SO2, SE2, SO3, SE3):
        return cls(vals if n > 1 else vals[0], check=False), vals
    if cls is UnitQuaternion:
        return cls(vals if n > 1 else vals[0]), vals
    return cls(vals if n > 1 else vals[0]), vals


def one(cls, v):
    if cls in (SO2, SE2, SO3, SE3):
        return cls(v, check=False)
    return cls(v)


def values(r):
    """list of element values of a result (object with .data, list, or single array)"""
    if hasattr(r, 'data') and isinstance(r, SMUserList):
        return list(r.data)
    if isinstance(r, list):
        return r
    return [r]


BINOPS = {
    SO2: ['*', '/', '+', '-', '==', '!='], SE2: ['*', '/', '+', '-', '==', '!='],
    SO3: ['*', '/', '+', '-', '==', '!='], SE3: ['*', '/', '+', '-', '==', '!='],
    Quaternion: ['*', '+', '-', '==', '!='], UnitQuaternion: ['*', '/', '+', '-', '==', '!='],
    Twist3: ['*'], Twist2: ['*'],
}
OPF = {'*': operator.mul, '/': operator.truediv, '+': operator.add, '-': operator.sub, '==': operator.eq, '!=': operator.ne}
QUICK_LEN = [(1, 1), (1, 3), (3, 1), (3, 3), (2, 2)]
ALL_LEN = [(m, n) for m in range(1, 6) for n in range(1, 6)]


def _binop(h, cls, op, m, n):
    A, av = seq(h, cls, 'A', m)
    B, bv = seq(h, cls, 'B', n)
    f = OPF[op]
    if m != n and m > 1 and n > 1:
        h.raises(f'{m} {op} {n} must raise ValueError', lambda: f(A, B), ValueError)
        return
    r = f(A, B)
    N = max(m, n)
    rv = values(r)
    h.true(f'result holds {N} value(s)', len(rv) == N)
    if len(rv) != N:
        return
    for i in range(N):
        ai, bi = av[i if m > 1 else 0], bv[i if n > 1 else 0]
        ref = values(f(one(cls, ai), one(cls, bi)))[0]
        if op in ('==', '!='):
            h.true(f'element {i}', _beq(rv[i], ref))
        else:
            h.same(f'element {i}', rv[i], ref)


def _beq(a, b):
    """two (possibly symbolic) booleans agree"""
    from symreal.core import SBool
    import z3
    if isinstance(a, SBool) or isinstance(b, SBool):
        a = a if isinstance(a, SBool) else SBool(z3.BoolVal(bool(a)), bool(a))
        b = b if isinstance(b, SBool) else SBool(z3.BoolVal(bool(b)), bool(b))
        return SBool(a.e == b.e, None if a.val is None or b.val is None else a.val == b.val)
    return bool(a) == bool(b)


for _cls, _ops in BINOPS.items():
    for _op in _ops:
        for (_m, _n) in ALL_LEN:
            quick = (_m, _n) in QUICK_LEN or (_m, _n) in ((2, 3), (3, 2))
            if _cls in (Twist3, Twist2):
                # composition of twists goes through exp and log: every product forks several times, so the quick tier
                # takes the length pairs up to 2 (1-with-M, M-with-1, M-with-M, mismatch is covered by 2-with-3 below)
                quick = (_m, _n) in ((1, 1), (1, 2), (2, 1), (2, 2), (2, 3))
            claim(f'{_cls.__name__} {_op} [{_m},{_n}]', tier='quick' if quick else 'thorough')(
                lambda h, c=_cls, o=_op, m=_m, n=_n: _binop(h, c, o, m, n))


# ----------------------------------------------------------------------------- scalar operand, powers

for _cls in (SO3, SE3, SO2, SE2):
    @claim(f'{_cls.__name__} scalar-and-power')
    def _(h, cls=_cls):
        A, av = seq(h, cls, 'A', 3)
        k = h.real('k', 0.5, 3)
        for nm, f in (('*k', lambda X: X * k), ('k*', lambda X: k * X), ('/k', lambda X: X / k), ('**2', lambda X: X ** 2),
                      ('**-1', lambda X: X ** -1), ('inv', lambda X: X.inv())):
            rv = values(f(A))
            h.true(f'{nm}: 3 values', len(rv) == 3)
            if len(rv) != 3:
                continue
            for i in range(3):
                h.same(f'{nm}: element {i}', rv[i], values(f(one(cls, av[i])))[0])


# ----------------------------------------------------------------------------- per-value accessors

def _acc(h, cls, name, call, m=3):
    A, av = seq(h, cls, 'A', m)
    r = call(A)
    singles = [call(one(cls, v)) for v in av]
    return r, singles


@claim('SO3 accessors')
def _(h):
    A, av = seq(h, SO3, 'A', 3)
    R = A.R
    h.true('R shape (3,3,3)', np.shape(R) == (3, 3, 3))
    for i in range(3):
        h.same(f'R[{i}]', R[i], av[i])
    d = A.det()
    h.true('det: 3 values', len(d) == 3)
    for i in range(3):
        h.same(f'det[{i}]', d[i], one(SO3, av[i]).det())
    L = A.log()
    h.true('log: 3 values', len(L) == 3)
    for i in range(3):
        h.same(f'log[{i}]', L[i], one(SO3, av[i]).log())


ANGLE_ACCESSORS = {
    'rpy': lambda X: X.rpy(), 'rpy-xyz': lambda X: X.rpy(order='xyz'), 'rpy-yxz': lambda X: X.rpy(order='yxz'),
    'rpy-arm-deg': lambda X: X.rpy(order='arm', unit='deg'), 'rpy-deg': lambda X: X.rpy(unit='deg'),
    'eul': lambda X: X.eul(), 'eul-flip': lambda X: X.eul(flip=True), 'eul-deg': lambda X: X.eul(unit='deg'),
}

for _nm, _f in ANGLE_ACCESSORS.items():
    for _cls in (SO3, SE3):
        @claim(f'{_cls.__name__} angle accessor {_nm}')
        def _(h, nm=_nm, f=_f, cls=_cls):
            """every option of the per-value angle accessors reaches every element of a multi-valued object"""
            A, av = seq(h, cls, 'A', 2)
            r = np.asarray(f(A))
            h.true(f'{nm}: one column per value', r.shape == (3, 2))
            if r.shape != (3, 2):
                return
            for i in range(2):
                h.same(f'{nm}[{i}]', r[:, i], f(one(cls, av[i])))


@claim('UnitQuaternion angle accessors')
def _(h):
    A, av = seq(h, UnitQuaternion, 'A', 2)
    for nm, f in (('rpy', lambda X: X.rpy()), ('rpy-xyz-deg', lambda X: X.rpy(order='xyz', unit='deg')), ('eul', lambda X: X.eul())):
        r = np.asarray(f(A))
        h.true(f'{nm}: 2 results of 3 angles', r.shape in ((3, 2), (2, 3)))
        for i in range(2):
            ri = r[:, i] if r.shape == (3, 2) and r.shape != (2, 3) else r[i]
            h.same(f'{nm}[{i}]', ri, f(one(UnitQuaternion, av[i])))


@claim('SE3 accessors')
def _(h):
    A, av = seq(h, SE3, 'A', 3)
    t = A.t
    h.true('t shape (3,3)', np.shape(t) == (3, 3))
    for i in range(3):
        h.same(f't[{i}]', t[i], av[i][:3, 3])
    R = A.R
    for i in range(3):
        h.same(f'R[{i}]', R[i], av[i][:3, :3])
    I = A.inv()
    h.true('inv: 3 values', len(I) == 3)
    for i in range(3):
        h.same(f'inv[{i}]', I.data[i], one(SE3, av[i]).inv().A)


@claim('SE3 times point sequence')
def _(h):
    A, av = seq(h, SE3, 'A', 3)
    p = h.vec('p', 3, -10, 10)
    r = A * p
    h.true('one column per value', np.shape(r) == (3, 3))
    for i in range(3):
        h.same(f'column {i}', r[:, i], np.asarray(one(SE3, av[i]) * p).ravel())


@claim('SO2-SE2 accessors')
def _(h):
    A, av = seq(h, SO2, 'A', 3)
    th = A.theta()
    h.true('theta: 3 values', len(th) == 3)
    for i in range(3):
        h.same(f'theta[{i}]', th[i], one(SO2, av[i]).theta())
    B, bv = seq(h, SE2, 'B', 3)
    t = B.t
    h.true('t shape', np.shape(t) == (3, 2))
    for i in range(3):
        h.same(f't[{i}]', t[i], bv[i][:2, 2])
    xyt = B.xyt()
    h.true('xyt: 3 values', len(xyt) == 3)
    for i in range(3):
        h.same(f'xyt[{i}]', xyt[i], one(SE2, bv[i]).xyt())
    I = B.inv()
    h.true('inv: 3 values', len(I) == 3)
    for i in range(3):
        h.same(f'inv[{i}]', I.data[i], one(SE2, bv[i]).inv().A)


@claim('Quaternion accessors')
def _(h):
    A, av = seq(h, Quaternion, 'A', 3)
    for nm, f in (('s', lambda X: X.s), ('v', lambda X: X.v), ('vec', lambda X: X.vec), ('norm', lambda X: X.norm())):
        r = f(A)
        h.true(f'{nm}: 3 values', len(r) == 3)
        for i in range(3):
            h.same(f'{nm}[{i}]', r[i], f(one(Quaternion, av[i])))
    for v in av:
        h.assume(nsq(v) >= 1e-2)
    for nm, f in (('conj', lambda X: X.conj()), ('**2', lambda X: X ** 2), ('unit', lambda X: X.unit())):
        r = f(A)
        h.true(f'{nm}: 3 values', len(r) == 3)
        for i in range(3):
            h.same(f'{nm}[{i}]', r.data[i], f(one(Quaternion, av[i])).data[0])


@claim('UnitQuaternion accessors')
def _(h):
    A, av = seq(h, UnitQuaternion, 'A', 3)
    I = A.inv()
    h.true('inv: 3 values', len(I) == 3)
    for i in range(3):
        h.same(f'inv[{i}]', I.data[i], one(UnitQuaternion, av[i]).inv().data[0])
    R = A.R
    h.true('R shape', np.shape(R) == (3, 3, 3))
    for i in range(3):
        h.same(f'R[{i}]', R[i], one(UnitQuaternion, av[i]).R)
    p = h.vec('p', 3, -10, 10)
    r = A * p
    h.true('point: one column per value', np.shape(r) == (3, 3))
    for i in range(3):
        h.same(f'point column {i}', r[:, i], one(UnitQuaternion, av[i]) * p)


@claim('interp vector s', tier='thorough')
def _(h):
    """interpolation over a vector of s returns one value per s"""
    a = h.angle('a', 0.1, 3)
    t = h.vec('t', 3, -10, 10)
    X = SE3(hom(h, rotz_ref(h, a), t), check=False)
    s1, s2 = h.real('s1', 0.1, 0.4), h.real('s2', 0.6, 0.9)
    r = X.interp([s1, s2])
    h.true('two values', len(r) == 2)
    h.same('first', r.data[0], X.interp(s1).A)
    h.same('second', r.data[1], X.interp(s2).A)


def _reflected_scalar(h, A, av, k, cls):
    """scalar * M-valued twist (documented: element-wise product), symbolic and integer scalar"""
    for nm, kk in (('k*', k), ('2*', 2)):
        r = kk * A
        h.is_type(f'{nm}: class', r, cls)
        n = len(r) if hasattr(r, '__len__') else -1
        h.true(f'{nm}: {len(av)} values', n == len(av))
        if n != len(av):
            continue
        for i in range(len(av)):
            h.same(f'{nm}[{i}]', r.data[i], av[i] * kk)


@claim('Twist2 sequence')
def _(h):
    A, av = seq(h, Twist2, 'A', 3)
    I = A.inv()
    h.true('inv: 3 values', len(I) == 3)
    for i in range(3):
        h.same(f'inv[{i}]', I.data[i], -av[i])
    k = h.real('k', 0.5, 3)
    r = A * k
    h.true('*k: 3 values', len(r) == 3)
    for i in range(3):
        h.same(f'*k[{i}]', r.data[i], av[i] * k)
    _reflected_scalar(h, A, av, k, Twist2)
    E = A.exp()
    h.true('exp: 3 values', len(E) == 3)
    for i in range(3):
        h.same(f'exp[{i}]', E.data[i], one(Twist2, av[i]).exp().A)
    th = h.vec('th', 3, 0.1, 1)
    E2 = A.exp(list(th))
    h.true('exp(theta vector): 3 values', len(E2) == 3)
    for i in range(3):
        h.same(f'exp(theta)[{i}]', E2.data[i], one(Twist2, av[i]).exp(th[i]).A)


@claim('Twist3 sequence')
def _(h):
    A, av = seq(h, Twist3, 'A', 3)
    I = A.inv()
    h.true('inv: 3 values', len(I) == 3)
    for i in range(3):
        h.same(f'inv[{i}]', I.data[i], -av[i])
    k = h.real('k', 0.5, 3)
    r = A * k
    h.true('*k: 3 values', len(r) == 3)
    for i in range(3):
        h.same(f'*k[{i}]', r.data[i], av[i] * k)
    _reflected_scalar(h, A, av, k, Twist3)
    E = A.exp()
    h.true('exp: 3 values', len(E) == 3)
    for i in range(3):
        h.same(f'exp[{i}]', E.data[i], one(Twist3, av[i]).exp().A)
    th = h.vec('th', 3, 0.1, 1)
    E2 = A.exp(list(th))
    h.true('exp(theta vector): 3 values', len(E2) == 3)
    for i in range(3):
        h.same(f'exp(theta)[{i}]', E2.data[i], one(Twist3, av[i]).exp(th[i]).A)
