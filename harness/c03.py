"""C03 Exponential and logarithm are correct and mutually inverse on the whole group."""
import math
import numpy as np
from symreal.api import Registry
from spatialmath import base, SO2, SE2, SO3, SE3, Twist3, Twist2
from .common import *

REG = Registry('C03')
claim = REG.claim
EXPLANATION = ("C03: trexp/trexp2/rodrigues/trlog and the class methods Exp/log/Twist.exp executed on rotation vectors theta*u "
               "(symbolic angle, symbolic or D-grid unit axis) and on group elements built by the harness; exp compared with "
               "the closed-form exponential (Rodrigues / V-matrix), log with theta*u, and both round trips entrywise.")
BOUNDS = ("exp: unit axis fully symbolic (sphere constraint), theta in stated sub-ranges of [0, 2pi]; log: axes from the D grid "
          "(listed in harness/common.py AXES), theta symbolic in [0, pi] split into [0,1e-3], [1e-3, pi-1e-3], [pi-1e-3, pi]; "
          "translations |t_i| <= 1e3; 2-D: scipy.linalg.logm replaced by a closed-form model of its contract for proved SO(2)/SE(2) arguments, |theta| <= 3.1")
ASSUMPTIONS = ["oracle for exp: Rodrigues formula I + sin(t) K + (1-cos t) K^2 and V = t I + (1-cos t) K + (t - sin t) K^2 (closed form of the series)",
               "scipy.linalg.logm (trlog2): modelled by the closed-form principal logarithm of a planar rotation / rigid motion (validated against LAPACK by translator validation)"]
TIMEOUT = {'quick': 10, 'thorough': 120}
WALL_BUDGET = {'quick': 400, 'thorough': 1800}


def FUNCS():
    return [base.trexp, base.trexp2, base.rodrigues, base.trlog, base.trlog2, base.unitvec_norm, base.unittwist_norm,
            base.unittwist2_norm, base.isunittwist, base.isunitvec, base.iszerovec, base.iseye, base.vex, base.vexa, base.skew,
            base.skewa, SO3.Exp, SE3.Exp, SO2.Exp, SE2.Exp, Twist3.exp, Twist2.exp, SE3.Twist3, Twist3.SE3, SO3.log]


def unit_axis(h, name='u'):
    u = h.vec(name, 3, -1, 1)
    if h.sym:
        h.unit(u)
        return u
    return unitize(u)


def V_ref(h, u, th):
    s, c = h.sincos(th)
    K = np.array(skew_ref(u), dtype=object)
    I = np.eye(3, dtype=int).astype(object)
    return I * th + (1 - c) * K + (th - s) * matmul(K, K)


RANGES = {'tiny': (0, 1e-3), 'mid': (1e-3, 3.1), 'near-pi': (3.1, 3.15), 'big': (3.15, 6.28)}

for _rn, (_lo, _hi) in RANGES.items():
    @claim(f'exp-so3:{_rn}', split=True)
    def _(h, lo=_lo, hi=_hi):
        """trexp(theta*u) = I + sin(theta) K(u) + (1 - cos theta) K(u)^2 for every unit u"""
        u = unit_axis(h)
        th = h.angle('th', lo, hi)
        if h.sym:
            h.sqrt_hint(th)
        w = h.arr([th * u[0], th * u[1], th * u[2]])
        ref = h.arr(rodrigues_ref(h, u, th))
        h.eq('vector', base.trexp(w), ref, tol=1e-7)
        h.eq('skew matrix', base.trexp(h.arr(skew_ref(w))), ref, tol=1e-7)
        h.eq('rodrigues', base.rodrigues(w), ref, tol=1e-7)
        h.eq('SO3.Exp', SO3.Exp(w).A, ref, tol=1e-7)

    @claim(f'exp-se3:{_rn}', split=True)
    def _(h, lo=_lo, hi=_hi):
        """trexp([v, theta*u]) = [[R, V (v/theta)... ]]: with S = [v; theta u], exp = [[Rod(u,theta), V(u,theta) v/theta],[0,1]]"""
        u = unit_axis(h)
        th = h.angle('th', max(lo, 1e-9), hi)
        v = h.vec('v', 3, -1e3, 1e3)          # translational part of the *unit* twist
        if h.sym:
            h.sqrt_hint(th)
        S = h.arr([th * v[0], th * v[1], th * v[2], th * u[0], th * u[1], th * u[2]])
        ref = hom(h, rodrigues_ref(h, u, th), matvec(V_ref(h, u, th), v))
        sc = 1 + nsq(v) * 40
        h.eq('vector', base.trexp(S), ref, tol=1e-7, scale=sc)
        h.eq('SE3.Exp', SE3.Exp(S).A, ref, tol=1e-7, scale=sc)
        h.eq('Twist3.exp', Twist3(S).exp().A, ref, tol=1e-7, scale=sc)


@claim('exp-theta-form', split=True)
def _(h):
    """trexp(S, theta) = trexp(theta S) for a unit twist S = [v; u]"""
    u = unit_axis(h)
    v = h.vec('v', 3, -1e3, 1e3)
    th = h.angle('th', 1e-3, 6.28)
    if h.sym:
        h.sqrt_hint(th)
    S = h.arr([v[0], v[1], v[2], u[0], u[1], u[2]])
    ref = hom(h, rodrigues_ref(h, u, th), matvec(V_ref(h, u, th), v))
    sc = 1 + nsq(v) * 40
    h.eq('trexp(S, theta)', base.trexp(S, th), ref, tol=1e-7, scale=sc)
    h.eq('trexp(theta S)', base.trexp(th * S), ref, tol=1e-7, scale=sc)
    h.eq('Twist3.exp(theta)', Twist3(S).exp(th).A, ref, tol=1e-7, scale=sc)
    h.eq('so3: trexp(u, theta)', base.trexp(u, th), h.arr(rodrigues_ref(h, u, th)), tol=1e-7)


@claim('twist-exp-theta-nonunit')
def _(h):
    """X.exp(theta) = exp(theta [S]) for a twist that is NOT a unit twist (rotational part of magnitude 0.7), theta a scalar,
    a list and an array: the magnitude of the twist must not be dropped on any theta form"""
    v = h.vec('v', 3, -1e3, 1e3)
    t1, t2 = h.angle('t1', 0.1, 3), h.angle('t2', 0.2, 2.5)
    sc = 1 + nsq(v) * 40
    S = h.arr([v[0], v[1], v[2], 0.2, 0.3, 0.6])
    X = Twist3(S)
    h.eq('scalar theta', X.exp(t1).A, base.trexp(S * t1), tol=1e-7, scale=sc)
    T = X.exp([t1, t2])
    h.true('two values', len(T) == 2)
    h.eq('list theta [1]', T.data[1], base.trexp(S * t2), tol=1e-7, scale=sc)
    Ta = X.exp(h.arr([t2, t1]))
    h.eq('array theta [0]', Ta.data[0], base.trexp(S * t2), tol=1e-7, scale=sc)


@claim('twist2-exp-theta-nonunit', tier='thorough')
def _(h):
    """the planar form of the same: Twist2 with rotational part 0.7 or -1.9"""
    v = h.vec('v', 2, -1e3, 1e3)
    t1, t2 = h.angle('t1', 0.1, 3), h.angle('t2', 0.2, 2.5)
    sc = 1 + nsq(v) * 40
    for k in (0.7, -1.9):
        S2 = h.arr([v[0], v[1], k])
        X2 = Twist2(S2)
        h.eq(f'w={k}: scalar theta', X2.exp(t1).A, base.trexp2(S2 * t1), tol=1e-7, scale=sc)
        T2 = X2.exp([t1, t2])
        h.true(f'w={k}: two values', len(T2) == 2)
        h.eq(f'w={k}: list theta [1]', T2.data[1], base.trexp2(S2 * t2), tol=1e-7, scale=sc)


@claim('exp-theta-zero')
def _(h):
    u = unit_axis(h)
    v = h.vec('v', 3, -1e3, 1e3)
    S = h.arr([v[0], v[1], v[2], u[0], u[1], u[2]])
    h.eq('trexp(S, 0)', base.trexp(S, 0), np.eye(4, dtype=int))
    h.eq('trexp(0 vector)', base.trexp(h.arr([0, 0, 0, 0, 0, 0])), np.eye(4, dtype=int))
    h.eq('trexp(0 so3)', base.trexp(h.arr([0, 0, 0])), np.eye(3, dtype=int))


@claim('exp-pure-translation')
def _(h):
    v = h.vec('v', 3, -1e6, 1e6)
    h.assume(nsq(v) >= 1e-20)
    S = h.arr([v[0], v[1], v[2], 0, 0, 0])
    ref = hom(h, np.eye(3, dtype=int), v)
    h.eq('trexp', base.trexp(S), ref, tol=1e-7, scale=1 + nsq(v))


@claim('exp-theta-requires-unit')
def _(h):
    w = h.vec('w', 3, -10, 10)
    h.assume(nsq(w) >= 1.001)
    h.raises('non-unit w with theta', lambda: base.trexp(w, 0.3), ValueError)


@claim('exp-rejects-bad-arguments')
def _(h):
    M = h.mat('M', 3, 3)
    h.assume(nsq(M + M.T) >= 1e-6)
    h.raises('non-skew matrix', lambda: base.trexp(M), ValueError)
    h.raises('length 5', lambda: base.trexp(h.vec('x', 5)), ValueError)
    h.raises('length 4', lambda: base.trexp(h.vec('y', 4)), ValueError)


# ----------------------------------------------------------------------------- planar exp

for _rn, (_lo, _hi) in {'tiny': (1e-9, 1e-3), 'mid': (1e-3, 6.28)}.items():
    @claim(f'exp2:{_rn}')
    def _(h, lo=_lo, hi=_hi):
        th = h.angle('th', lo, hi)
        v = h.vec('v', 2, -1e3, 1e3)
        s, c = h.sincos(th)
        R = h.arr(rot2_ref(h, th))
        h.eq('so2 vector', base.trexp2([th]), R, tol=1e-7)
        h.eq('so2 matrix', base.trexp2(h.arr([[0, -th], [th, 0]])), R, tol=1e-7)
        h.eq('SO2.Exp', SO2.Exp([th]).A, R, tol=1e-7)
        # se(2): S = theta*[v; 1]; V = [[s, -(1-c)], [1-c, s]] (times v)
        S = h.arr([th * v[0], th * v[1], th])
        tv = [s * v[0] - (1 - c) * v[1], (1 - c) * v[0] + s * v[1]]
        ref = hom(h, R, tv)
        sc = 1 + nsq(v) * 40
        h.eq('se2 vector', base.trexp2(S), ref, tol=1e-7, scale=sc)
        h.eq('se2 (S, theta)', base.trexp2(h.arr([v[0], v[1], 1]), th), ref, tol=1e-7, scale=sc)
        h.eq('SE2.Exp', SE2.Exp(S).A, ref, tol=1e-7, scale=sc)
        h.eq('Twist2.exp', Twist2(S).exp().A, ref, tol=1e-7, scale=sc)


@claim('exp2-negative-angle')
def _(h):
    th = h.angle('th', -6.28, -1e-3)
    v = h.vec('v', 2, -1e3, 1e3)
    s, c = h.sincos(th)
    R = h.arr(rot2_ref(h, th))
    h.eq('so2 vector', base.trexp2([th]), R, tol=1e-7)
    S = h.arr([th * v[0], th * v[1], th])
    tv = [s * v[0] - (1 - c) * v[1], (1 - c) * v[0] + s * v[1]]
    h.eq('se2 vector', base.trexp2(S), hom(h, R, tv), tol=1e-7, scale=1 + nsq(v) * 40)


# ----------------------------------------------------------------------------- log

LOG_RANGES = {'tiny': (0, 1e-3), 'mid': (1e-3, 3.14), 'near-pi': (3.14, math.pi - 1e-6),
              # beyond pi - 1e-6 the property only demands exp(log R) = R (log is discontinuous at a half turn)
              'upto-band': (math.pi - 1e-6, math.pi - 2e-7), 'half-turn-band': (math.pi - 2e-7, math.pi),
              'half-turn-band-2e-7': (math.pi - 2e-7, math.pi)}
QUICK_AXES = ('z', '236')

for _ax in AXES:
    for _rn, (_lo, _hi) in LOG_RANGES.items():
        @claim(f'log-so3:{_ax}:{_rn}', values=True, split=True, tier='quick' if _ax in QUICK_AXES else 'thorough')
        def _(h, ax=_ax, lo=_lo, hi=_hi, rn=_rn):
            """L = trlog(R(u, theta)): finite, skew, |w| <= pi, w = theta u, exp(L) = R"""
            R, th = rot_axis(h, 'th', AXES[ax], lo, hi)
            u = [float(x) if not h.sym else x for x in AXES[ax]]
            tol = 2e-7 if rn.endswith('2e-7') else 1e-7
            L = base.trlog(R)
            h.true('shape', np.shape(L) == (3, 3))
            h.eq('skew', L + L.T, np.zeros((3, 3), dtype=int), tol=tol)
            w = base.vex(L)
            h.true('|w|^2 <= pi^2', nsq(w) <= math.pi ** 2 * (1 + 1e-12))
            if hi <= math.pi - 1e-6:
                h.eq('w = theta u', w, h.arr([th * Term_or(x) for x in u]), tol=tol)
            h.eq('exp(log R) = R', base.trexp(L), R, tol=tol)
            wt = base.trlog(R, twist=True)
            h.eq('twist form', wt, w, tol=tol)

    @claim(f'log-se3:{_ax}', values=True, split=True, tier='quick' if _ax in ('z',) else 'thorough')
    def _(h, ax=_ax):
        R, th = rot_axis(h, 'th', AXES[ax], 1e-3, 3.14)
        t = h.vec('t', 3, -1e3, 1e3)
        T = hom(h, R, t)
        L = base.trlog(T)
        h.true('shape', np.shape(L) == (4, 4))
        h.eq('bottom row', L[3, :], [0, 0, 0, 0])
        sc = 1 + nsq(t)
        h.eq('exp(log T) = T', base.trexp(L), T, tol=1e-7, scale=sc)
        tw = base.trlog(T, twist=True)
        h.eq('twist form', tw, base.vexa(L), tol=1e-7, scale=sc)
        X = SE3(T, check=False)
        h.same('SE3.log', X.log(), L)
        h.same('SE3.Twist3', X.Twist3().S, tw)


def Term_or(x):
    return x


SMALL_SE3 = {'1e-9..1e-6': (1e-9, 1e-6), '1e-6..1e-3': (1e-6, 1e-3)}
for _ax in ('236',):
    for _rn, (_lo, _hi) in SMALL_SE3.items():
        @claim(f'log-se3-small-angle:{_ax}:{_rn}', values=True, split=True)
        def _(h, ax=_ax, lo=_lo, hi=_hi):
            """SE(3) logarithm of a small rotation with a translation (the range where 1 - cos(theta) and theta - sin(theta)
            cancel in floating point; over R the claim is the same identity as log-se3, the native validation run and the
            replay exercise the float code in this range)"""
            R, th = rot_axis(h, 'th', AXES[ax], lo, hi)
            t = h.vec('t', 3, -10, 10)
            T = hom(h, R, t)
            L = base.trlog(T)
            sc = 1 + nsq(t)
            h.eq('exp(log T) = T', base.trexp(L), T, tol=1e-7, scale=sc)
            tw = base.trlog(T, twist=True)
            h.eq('twist form', tw, base.vexa(L), tol=1e-7, scale=sc)
            h.eq('rotational part = theta u', tw[3:6], h.arr([th * x for x in AXES[ax]]), tol=1e-7)


@claim('log-identity-and-translation')
def _(h):
    t = h.vec('t', 3, -1e6, 1e6)
    h.eq('log(I3)', base.trlog(np.eye(3)), np.zeros((3, 3), dtype=int))
    h.eq('log(I4)', base.trlog(np.eye(4)), np.zeros((4, 4), dtype=int))
    h.assume(nsq(t) >= 1e-20)
    T = hom(h, np.eye(3, dtype=int), t)
    L = base.trlog(T)
    ref = h.arr([[0, 0, 0, t[0]], [0, 0, 0, t[1]], [0, 0, 0, t[2]], [0, 0, 0, 0]])
    h.eq('log(pure translation)', L, ref, scale=1 + nsq(t))
    h.eq('twist', base.trlog(T, twist=True), h.arr([t[0], t[1], t[2], 0, 0, 0]), scale=1 + nsq(t))


@claim('log-rejects-invalid')
def _(h):
    M = h.mat('M', 3, 3, -2, 2)
    E = matmul(M, transpose(M)) - np.eye(3, dtype=int)
    h.assume(nsq(E) >= 1e-6)
    h.raises('non-orthogonal 3x3', lambda: base.trlog(M), ValueError)
    h.raises('2x2', lambda: base.trlog(h.mat('N', 2, 2)), ValueError)


@claim('log2-shortcuts')
def _(h):
    h.eq('log(I2)... so2', base.trlog2(np.eye(3)), np.zeros((3, 3), dtype=int))
    h.eq('twist', base.trlog2(np.eye(3), twist=True), np.zeros(3, dtype=int))
    M = h.mat('M', 2, 2, -2, 2)
    E = matmul(M, transpose(M)) - np.eye(2, dtype=int)
    h.assume(nsq(E) >= 1e-6)
    h.raises('non-orthogonal 2x2', lambda: base.trlog2(M), ValueError)


# ----------------------------------------------------------------------------- conditioning next to the half-turn band (F-repr)

for _ax, _where in (('z', 'pi'), ('x', 'pi'), ('z', 'identity'), ('x', 'identity')):
    @claim(f'log-conditioning-near-{_where}:{_ax}', split=True, values=True)
    def _(h, ax=_ax, where=_where):
        """F-repr: a rotation matrix as a double array holds it -- diagonal entries off by at most 4 eps -- with an angle
        between pi - 1e-5 and pi - 2e-7 (just outside trlog's half-turn band).  The logarithm must still have magnitude
        <= pi and reproduce R to the property's tolerance.  (The general branch divides by sin(acos((tr-1)/2)), which
        amplifies a 1e-16 error in the trace by 1/delta^2.)"""
        th = h.angle('th', (math.pi - 1e-5) if where == 'pi' else 1e-9, (math.pi - 2e-7) if where == 'pi' else 1e-7)
        R = h.arr(rotz_ref(h, th) if ax == 'z' else rotx_ref(h, th))
        e1, e2 = h.real('e1', -2.0 ** -50, 2.0 ** -50), h.real('e2', -2.0 ** -50, 2.0 ** -50)
        i, j = (0, 1) if ax == 'z' else (1, 2)
        R[i, i] = R[i, i] + e1
        R[j, j] = R[j, j] + e2
        L = base.trlog(R, check=False)
        w = base.vex(L)
        h.true('rotation magnitude <= pi (+1e-6)', nsq(w) <= (math.pi + 1e-6) ** 2)
        h.eq('exp(log R) = R', base.trexp(L), R, tol=1e-6)


# ----------------------------------------------------------------------------- planar logarithm (scipy.linalg.logm modelled by its contract)

LOG2_RANGES = {'small': (-0.5, 0.5), 'mid': (0.4, 2.0), 'neg-mid': (-2.0, -0.4), 'large': (1.9, 3.1), 'neg-large': (-3.1, -1.9)}

for _rn, (_lo, _hi) in LOG2_RANGES.items():
    @claim(f'log2-so2:{_rn}', tier='thorough' if _rn.startswith('neg') else 'quick')
    def _(h, lo=_lo, hi=_hi):
        """trlog2 of a planar rotation: the so(2) matrix of the angle; exp(log R) = R; twist form"""
        a = h.angle('a', lo, hi)
        R = h.arr(rot2_ref(h, a))
        L = base.trlog2(R, check=False)
        h.eq('log R = skew(a)', L, [[0, -a], [a, 0]], tol=1e-9)
        h.eq('twist form', np.asarray(base.trlog2(R, check=False, twist=True)).ravel(), [a], tol=1e-9)
        h.eq('exp(log R) = R', base.trexp2(L), R, tol=1e-9)
        h.eq('SO2.log', SO2(R, check=False).log(), [[0, -a], [a, 0]], tol=1e-9)

    @claim(f'log2-se2:{_rn}', tier='thorough' if _rn.startswith('neg') else 'quick')
    def _(h, lo=_lo, hi=_hi):
        """trlog2 of a planar rigid motion: exp(log T) = T, log(exp(S)) = S"""
        a = h.angle('a', lo, hi)
        t = h.vec('t', 2, -1e3, 1e3)
        T = hom(h, rot2_ref(h, a), t)
        L = base.trlog2(T, check=False)
        sc = 1 + nsq(t)
        h.eq('rotational part of the log', L[1, 0], a, tol=1e-9)
        h.eq('structure', [L[0, 0], L[1, 1], L[2, 0], L[2, 1], L[2, 2], L[0, 1] + L[1, 0]], [0, 0, 0, 0, 0, 0], tol=1e-12)
        h.eq('exp(log T) = T', base.trexp2(L), T, tol=1e-9, scale=sc)
        tw = np.asarray(base.trlog2(T, check=False, twist=True)).ravel()
        h.eq('twist form = vexa(log)', tw, [L[0, 2], L[1, 2], L[1, 0]], tol=1e-12, scale=sc)
        h.eq('SE2.log', SE2(T, check=False).log(), L, tol=1e-12, scale=sc)
        h.eq('Twist2(SE2).exp', Twist2(SE2(T, check=False)).exp().A, T, tol=1e-9, scale=sc)


@claim('log2-exp2-roundtrip')
def _(h):
    """log(exp(S)) = S for planar twists with |theta| < pi"""
    w = h.angle('w', -3.1, 3.1)
    v = h.vec('v', 2, -1e3, 1e3)
    S = h.arr([v[0], v[1], w])
    T = base.trexp2(S)
    h.eq('log(exp(S)) = S', np.asarray(base.trlog2(T, check=False, twist=True)).ravel(), S, tol=1e-9, scale=1 + nsq(v))
