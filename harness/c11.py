"""C11 Interpolation: endpoints, validity, linear translation, constant-rate rotation."""
import math
import numpy as np
from symreal.api import Registry
from spatialmath import base, SO2, SE2, SO3, SE3, UnitQuaternion
from spatialmath.super_pose import SMPose
from .common import *

REG = Registry('C11')
claim = REG.claim
EXPLANATION = ("C11: slerp, trinterp, trinterp2 and the class methods interp executed with a symbolic interpolation parameter s, "
               "a symbolic start quaternion / pose and a relative rotation by a symbolic angle about a symbolic unit axis; "
               "endpoints, unit norm, linear translation, fixed axis with angle proportional to s, rejection of s outside "
               "[0,1] and agreement of the routes are entrywise z3 obligations.")
BOUNDS = ("slerp: q0 on the full unit sphere, q1 = q0 * (cos t, sin t n) with n on the unit sphere and quaternion half-angle t in "
          "stated sub-ranges of (0, pi/2] (shorter arc) ; matrix functions: rotations about the z axis (r2q branch by branch); "
          "s symbolic in [0,1] and slightly outside")
TIMEOUT = {'quick': 10, 'thorough': 120}


def FUNCS():
    return [base.slerp, base.trinterp, base.trinterp2, SMPose.interp, UnitQuaternion.interp, base.r2q, base.q2r]


def pair(h, lo, hi):
    """q0 arbitrary unit quaternion; q1 = q0 o (cos t, sin t * n): relative rotation by 2t about the unit axis n"""
    q0 = unit_quat(h, 'q')
    n = h.vec('n', 3, -1, 1)
    if h.sym:
        h.unit(n)
    else:
        n = unitize(n)
    t = h.angle('t', lo, hi)
    st, ct = h.sincos(t)
    rel = [ct, st * n[0], st * n[1], st * n[2]]
    q1 = h.arr(qmul_ref(q0, rel))
    return q0, q1, n, t


for _rn, (_lo, _hi) in {'mid': (1e-3, 1.5), 'small': (1e-9, 1e-3), 'near-quarter': (1.5, 1.5707)}.items():
    @claim(f'slerp:{_rn}', split=True, values=True)
    def _(h, lo=_lo, hi=_hi):
        q0, q1, n, t = pair(h, lo, hi)
        s = h.real('s', 0, 1)
        q = base.slerp(q0, q1, s)
        h.eq('unit norm', nsq(q), 1, tol=1e-6)
        # fixed axis, angle proportional to s: q(s) = q0 o (cos(s t), sin(s t) n)
        sp, cp = h.sincos(s * t)
        ref = qmul_ref(q0, [cp, sp * n[0], sp * n[1], sp * n[2]])
        h.eq('q(s) = q0 o (cos st, sin st n)', q, h.arr(ref), tol=1e-6)
        h.eq('shortest=True agrees (angle <= pi/2)', base.slerp(q0, q1, s, shortest=True), q, tol=1e-6)


@claim('slerp-endpoints')
def _(h):
    q0, q1, n, t = pair(h, 1e-3, 1.5)
    h.same('s=0', base.slerp(q0, q1, 0), q0)
    h.same('s=1', base.slerp(q0, q1, 1), q1)
    h.same('s=0.0', base.slerp(q0, q1, 0.0), q0)
    h.same('s=1.0', base.slerp(q0, q1, 1.0), q1)


@claim('slerp-rejects-outside')
def _(h):
    q0, q1, n, t = pair(h, 1e-3, 1.5)
    e = h.real('e', 1e-12, 5)
    h.raises('s > 1', lambda: base.slerp(q0, q1, 1 + e), ValueError)
    h.raises('s < 0', lambda: base.slerp(q0, q1, -e), ValueError)


@claim('slerp-shortest-arc', split=True, values=True, timeout={'quick': 6, 'thorough': 120})
def _(h):
    """q1 given with the far sign: shortest=True must take the short way round (same rotation path as with -q1)"""
    q0, q1, n, t = pair(h, 1e-3, 1.5)
    s = h.real('s', 1e-6, 1 - 1e-6)      # the endpoints return q0 / q1 unchanged (same rotation, opposite sign)
    a = base.slerp(q0, -q1, s, shortest=True)
    b = base.slerp(q0, q1, s)
    # flipping q0 and walking to -q1 is the mirror image of the short arc: a = -b component by component
    h.eq('short arc taken (a = -b)', a, -b, tol=1e-6)
    h.eq('unit norm', nsq(a), 1, tol=1e-6)


# ----------------------------------------------------------------------------- matrix interpolators (rotations about z)

def z_pose(h, name, lo=0.01, hi=1.5):
    hf = h.angle(name, lo, hi)          # half angle
    if h.sym:
        s, c = h.sincos(hf)
        h.sqrt_hint(2 * c)
        h.sqrt_hint(2 * s)
        h.sqrt_hint(s)
        h.sqrt_hint(c)
    return h.arr(rotz_ref(h, 2 * hf)), hf


@claim('trinterp-so3-from-identity', split=True, values=True)
def _(h):
    R, hf = z_pose(h, 'hf')
    s = h.real('s', 0, 1)
    Rs = base.trinterp(None, R, s)
    assert_SO(h, 'valid', Rs, tol=1e-6)
    h.eq('rotation about z by s * angle', Rs, h.arr(rotz_ref(h, 2 * (s * hf))), tol=1e-6)
    h.eq('SO3.interp', SO3(R, check=False).interp(s).A, Rs, tol=1e-6)


@claim('trinterp-se3', split=True, values=True, tier='thorough')
def _(h):
    R0, h0 = z_pose(h, 'h0')
    R1, h1 = z_pose(h, 'h1')
    t0, t1 = h.vec('t0_', 3, -1e3, 1e3), h.vec('t1_', 3, -1e3, 1e3)
    T0, T1 = hom(h, R0, t0), hom(h, R1, t1)
    s = h.real('s', 0, 1)
    Ts = base.trinterp(T0, T1, s)
    sc = 1 + nsq(t0) + nsq(t1)
    h.eq('translation linear in s', Ts[:3, 3], t0 * (1 - s) + s * t1, tol=1e-6, scale=sc)
    h.eq('last row', Ts[3, :], [0, 0, 0, 1])
    assert_SO(h, 'valid rotation', Ts[:3, :3], tol=1e-6)
    h.eq('rotation about z by (1-s) a0 + s a1', Ts[:3, :3], h.arr(rotz_ref(h, 2 * (h0 + s * (h1 - h0)))), tol=1e-6)
    h.eq('SE3.interp(start=)', SE3(T1, check=False).interp(s, start=SE3(T0, check=False)).A, Ts, tol=1e-6, scale=sc)


@claim('trinterp-endpoints')
def _(h):
    R0, h0 = z_pose(h, 'h0')
    R1, h1 = z_pose(h, 'h1')
    t0, t1 = h.vec('t0_', 3, -1e3, 1e3), h.vec('t1_', 3, -1e3, 1e3)
    T0, T1 = hom(h, R0, t0), hom(h, R1, t1)
    sc = 1 + nsq(t0) + nsq(t1)
    h.eq('s=0 -> start', base.trinterp(T0, T1, 0), T0, tol=1e-6, scale=sc)
    h.eq('s=1 -> end', base.trinterp(T0, T1, 1), T1, tol=1e-6, scale=sc)
    h.eq('from identity s=0', base.trinterp(None, T1, 0), np.eye(4, dtype=int), tol=1e-6, scale=sc)
    h.eq('from identity s=1', base.trinterp(None, T1, 1), T1, tol=1e-6, scale=sc)


@claim('trinterp-rejects-outside')
def _(h):
    R1, h1 = z_pose(h, 'h1')
    e = h.real('e', 1e-12, 5)
    h.raises('s > 1', lambda: base.trinterp(None, R1, 1 + e), ValueError)
    h.raises('s < 0', lambda: base.trinterp(None, R1, -e), ValueError)
    h.raises('SO3.interp s > 1', lambda: SO3(R1, check=False).interp(1 + e))
    h.raises('UnitQuaternion.interp s > 1', lambda: UnitQuaternion(h.arr([1, 0, 0, 0])).interp(1 + e, dest=UnitQuaternion(h.arr([0, 1, 0, 0]))))


@claim('trinterp-rejects-bad-shape')
def _(h):
    M = h.mat('M', 2, 2)
    s = h.real('s', 0, 1)
    h.raises('2x2 to trinterp', lambda: _must_be_matrix(base.trinterp(None, M, s)))


def _must_be_matrix(r):
    if isinstance(r, Exception):
        return r            # an exception object RETURNED instead of raised is not a rejection
    return r


# ----------------------------------------------------------------------------- planar

@claim('trinterp2', values=True)
def _(h):
    a0, a1 = h.angle('a0', -3.1, 3.1), h.angle('a1', -3.1, 3.1)
    t0, t1 = h.vec('t0_', 2, -1e3, 1e3), h.vec('t1_', 2, -1e3, 1e3)
    T0, T1 = hom(h, rot2_ref(h, a0), t0), hom(h, rot2_ref(h, a1), t1)
    s = h.real('s', 0, 1)
    Ts = base.trinterp2(T0, T1, s)
    sc = 1 + nsq(t0) + nsq(t1)
    h.eq('translation linear in s', Ts[:2, 2], t0 * (1 - s) + s * t1, tol=1e-6, scale=sc)
    h.eq('angle linear in s', Ts[:2, :2], h.arr(rot2_ref(h, a0 * (1 - s) + s * a1)), tol=1e-6)
    assert_SO(h, 'valid', Ts[:2, :2], tol=1e-6)
    h.eq('last row', Ts[2, :], [0, 0, 1])
    h.eq('SE2.interp', SE2(T1, check=False).interp(s, start=SE2(T0, check=False)).A, Ts, tol=1e-6, scale=sc)
    R = base.trinterp2(h.arr(rot2_ref(h, a0)), h.arr(rot2_ref(h, a1)), s)
    h.eq('SO(2) form', R, Ts[:2, :2], tol=1e-6)
    h.eq('from identity', base.trinterp2(None, T1, s), hom(h, rot2_ref(h, s * a1), s * t1), tol=1e-6, scale=sc)


@claim('integer-typed-endpoints', values=True)
def _(h):
    """end poses supplied as integer-dtype arrays (quarter turns, integer translations): same interpolant as for the float
    form of the same matrices -- the result must not inherit the integer storage of an argument"""
    s = h.real('s', 0, 1)
    E2i = np.array([[0, -1, 2], [1, 0, 4], [0, 0, 1]])
    S2i = np.array([[1, 0, -3], [0, 1, 1], [0, 0, 1]])
    E2f, S2f = E2i.astype(float), S2i.astype(float)
    ref = hom(h, rot2_ref(h, s * (math.pi / 2)), h.arr([s * 2, s * 4]))
    h.eq('trinterp2(None, int end, s)', base.trinterp2(None, E2i, s), ref, tol=1e-6, scale=30)
    h.eq('trinterp2(int start, int end, s)', base.trinterp2(S2i, E2i, s), base.trinterp2(S2f, E2f, s), tol=1e-6, scale=30)
    h.eq('SE2(int).interp(s)', SE2(E2i).interp(s).A, ref, tol=1e-6, scale=30)
    h.eq('SO(2) int end', base.trinterp2(None, E2i[:2, :2], s), h.arr(rot2_ref(h, s * (math.pi / 2))), tol=1e-6)
    E3i = np.array([[0, -1, 0, 2], [1, 0, 0, 4], [0, 0, 1, -5], [0, 0, 0, 1]])
    S3i = np.array([[1, 0, 0, 1], [0, 1, 0, 1], [0, 0, 1, 1], [0, 0, 0, 1]])
    h.eq('trinterp(None, int end, s)', base.trinterp(None, E3i, s), base.trinterp(None, E3i.astype(float), s), tol=1e-6, scale=50)
    h.eq('trinterp(int start, int end, s)', base.trinterp(S3i, E3i, s), base.trinterp(S3i.astype(float), E3i.astype(float), s),
         tol=1e-6, scale=50)
    h.eq('SE3(int).interp(s) translation', SE3(E3i).interp(s).A[:3, 3], h.arr([s * 2, s * 4, s * -5]), tol=1e-6, scale=50)


@claim('trinterp2-endpoints')
def _(h):
    a0, a1 = h.angle('a0', -3.1, 3.1), h.angle('a1', -3.1, 3.1)
    t0, t1 = h.vec('t0_', 2, -1e3, 1e3), h.vec('t1_', 2, -1e3, 1e3)
    T0, T1 = hom(h, rot2_ref(h, a0), t0), hom(h, rot2_ref(h, a1), t1)
    sc = 1 + nsq(t0) + nsq(t1)
    h.eq('s=0', base.trinterp2(T0, T1, 0), T0, tol=1e-6, scale=sc)
    h.eq('s=1', base.trinterp2(T0, T1, 1), T1, tol=1e-6, scale=sc)


# ----------------------------------------------------------------------------- quaternion class method agrees with slerp

@claim('UnitQuaternion.interp', split=True, values=True)
def _(h):
    q0, q1, n, t = pair(h, 1e-3, 1.5)
    s = h.real('s', 1e-6, 1 - 1e-6)
    a = UnitQuaternion(q0).interp(s, dest=UnitQuaternion(q1))
    h.is_type('type', a, UnitQuaternion)
    h.eq('agrees with slerp', a.vec, base.slerp(q0, q1, s), tol=1e-6)


@claim('interp-vector-s')
def _(h):
    a1 = h.angle('a1', -3.1, 3.1)
    t1 = h.vec('t1_', 2, -1e3, 1e3)
    X = SE2(hom(h, rot2_ref(h, a1), t1), check=False)
    s1, s2 = h.real('s1', 0.1, 0.4), h.real('s2', 0.6, 0.9)
    r = X.interp([s1, s2])
    h.true('two values', len(r) == 2)
    h.same('first', r.data[0], X.interp(s1).A)
    h.same('second', r.data[1], X.interp(s2).A)


@claim('UnitQuaternion.interp-shortest', split=True, values=True, timeout={'quick': 6, 'thorough': 120})
def _(h):
    """dest given with the far sign and shortest=True: the class method must follow the short arc like slerp"""
    q0, q1, n, t = pair(h, 1e-3, 1.5)
    s = h.real('s', 1e-6, 1 - 1e-6)
    a = UnitQuaternion(q0).interp(s, dest=UnitQuaternion(-q1), shortest=True)
    b = base.slerp(q0, q1, s)
    h.eq('same rotation as the short arc', a.R, h.arr(q2r_ref(b)), tol=1e-6)
    sp, cp = h.sincos(s * t)
    ref = qmul_ref(q0, [cp, sp * n[0], sp * n[1], sp * n[2]])
    h.eq('constant rate about the fixed axis', a.R, h.arr(q2r_ref(ref)), tol=1e-6)
