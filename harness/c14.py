"""C14 Normalisation projects onto the group and is idempotent."""
import math
import numpy as np
from symreal.api import Registry
from spatialmath import base, SO2, SE2, SO3, SE3, Quaternion, UnitQuaternion, Twist3, Twist2
from .common import *
from .ctors import _oa

REG = Registry('C14')
claim = REG.claim
EXPLANATION = ("C14: trnorm, unit, unitvec(_norm), unittwist(_norm), unittwist2(_norm), angdiff and the class methods norm/unit "
               "executed on symbolic inputs; output validity, direction preservation, idempotence, fixed points and the "
               "angle-wrapping congruence are discharged by z3 (mixed integer/real for angdiff).")
BOUNDS = ("trnorm: arbitrary second and third columns with lengths in [1e-3,1e6] and |sin angle| >= 0.045 (covers every noisy "
          "member), arbitrary first column and translation; vectors/quaternions/twists: free reals with norm >= 1e-6; "
          "angles |a| <= 1e3")
TIMEOUT = {'quick': 10, 'thorough': 120}


def FUNCS():
    return [base.trnorm, base.unit, base.unitvec, base.unitvec_norm, base.unittwist, base.unittwist_norm, base.unittwist2,
            base.unittwist2_norm, base.angdiff, SO3.norm, Quaternion.unit, UnitQuaternion.__init__, Twist3.unit.fget]


def noisy_T(h, hom_=False):
    """any 3x3 whose 2nd and 3rd columns are usable: trnorm only reads those"""
    o, a = _oa(h)
    n = h.vec('n', 3, -1e6, 1e6)
    R = h.arr([[n[0], o[0], a[0]], [n[1], o[1], a[1]], [n[2], o[2], a[2]]])
    if hom_:
        return hom(h, R, h.vec('t', 3, -1e6, 1e6)), o, a
    return R, o, a


@claim('trnorm-valid-output', split=True)
def _(h):
    R, o, a = noisy_T(h)
    N = base.trnorm(R)
    assert_SO(h, 'trnorm(R)', N, tol=1e-12)


@claim('trnorm-keeps-directions', split=True)
def _(h):
    R, o, a = noisy_T(h)
    N = base.trnorm(R)
    an, on = N[:, 2], N[:, 1]
    h.eq('third axis parallel to a', h.arr(cross(an, a)), [0, 0, 0], scale=nsq(a) + 1)
    h.true('third axis same direction', dot(an, a) > 0)
    h.eq('second axis in span(o, a)', dot(on, cross(o, a)), 0, scale=nsq(o) + nsq(a) + 1)
    h.true('second axis on the side of o', dot(on, o) > 0)


@claim('trnorm-se3', split=True)
def _(h):
    T, o, a = noisy_T(h, True)
    N = base.trnorm(T)
    h.true('shape', np.shape(N) == (4, 4))
    h.eq('translation kept', N[:3, 3], T[:3, 3], exact_only=True)
    h.eq('last row', N[3, :], [0, 0, 0, 1], exact_only=True)
    assert_SO(h, 'rotation', N[:3, :3], tol=1e-12)


@claim('trnorm-fixed-point', split=True)
def _(h):
    """an already valid member is returned unchanged"""
    R, q = rot_quat(h, 'R')
    h.eq('trnorm(R) = R', base.trnorm(R), R, tol=1e-12)
    T = hom(h, R, h.vec('t', 3, -1e6, 1e6))
    h.eq('trnorm(T) = T', base.trnorm(T), T, tol=1e-12)
    h.eq('SO3.norm', SO3(R, check=False).norm().A, R, tol=1e-12)
    h.eq('SE3.norm', SE3(T, check=False).norm().A, T, tol=1e-12)


@claim('trnorm-idempotent', split=True, tier='thorough')
def _(h):
    R, o, a = noisy_T(h)
    N = base.trnorm(R)
    h.eq('trnorm(trnorm(R)) = trnorm(R)', base.trnorm(N), N, tol=1e-12)


@claim('trnorm-rejects')
def _(h):
    h.raises('2x2', lambda: base.trnorm(h.mat('M', 2, 2)))
    h.raises('3-vector', lambda: base.trnorm(h.vec('v', 3)))


@claim('unit-quaternion')
def _(h):
    q = h.vec('q', 4, -1e6, 1e6)
    h.assume(nsq(q) >= 1e-12)
    u = base.unit(q)
    h.eq('unit norm', nsq(u), 1, tol=1e-12)
    n = base.qnorm(q)
    h.eq('direction kept: u |q| = q', u * n, q, scale=1 + nsq(q))
    h.true('|q| > 0', n > 0)
    h.eq('idempotent', base.unit(u), u, tol=1e-12)
    h.eq('Quaternion.unit', Quaternion(q).unit().vec, u, tol=1e-12)
    h.eq('UnitQuaternion(q)', UnitQuaternion(q).vec, u, tol=1e-12)
    h.eq('UnitQuaternion(s, v)', UnitQuaternion(q[0], q[1:4]).vec, u, tol=1e-12)


@claim('unit-quaternion-fixed-point')
def _(h):
    q = unit_quat(h, 'q')
    h.eq('unit(q) = q', base.unit(q), q, tol=1e-12)
    h.eq('UnitQuaternion(q) = q', UnitQuaternion(q).vec, q, tol=1e-12)


@claim('unit-rejects-zero')
def _(h):
    h.raises('zero quaternion', lambda: base.unit(h.arr([0, 0, 0, 0])), ValueError)


@claim('unitvec')
def _(h):
    v = h.vec('v', 3, -1e6, 1e6)
    h.assume(nsq(v) >= 1e-12)
    u = base.unitvec(v)
    h.eq('unit norm', nsq(u), 1, tol=1e-12)
    un, n = base.unitvec_norm(v)
    h.eq('same vector', un, u, tol=1e-12)
    h.eq('n^2 = |v|^2', n * n, nsq(v), scale=1 + nsq(v))
    h.true('n > 0', n > 0)
    h.eq('direction kept', u * n, v, scale=1 + nsq(v))
    h.eq('idempotent', base.unitvec(u), u, tol=1e-12)


@claim('unittwist-rotational')
def _(h):
    S = h.vec('S', 6, -1e6, 1e6)
    w2 = nsq(S[3:6])
    h.assume(w2 >= 1e-12)
    U = base.unittwist(S)
    h.eq('unit rotational part', nsq(U[3:6]), 1, tol=1e-12)
    Un, th = base.unittwist_norm(S)
    h.eq('same twist', Un, U, tol=1e-12)
    h.eq('theta^2 = |w|^2', th * th, w2, scale=1 + w2)
    h.true('theta > 0', th > 0)
    h.eq('direction kept', U * th, S, scale=1 + nsq(S))


@claim('unittwist-irrotational')
def _(h):
    v = h.vec('v', 3, -1e6, 1e6)
    h.assume(nsq(v) >= 1e-12)
    S = h.arr([v[0], v[1], v[2], 0, 0, 0])
    U = base.unittwist(S)
    h.eq('unit translational part', nsq(U[0:3]), 1, tol=1e-12)
    h.eq('w stays 0', U[3:6], [0, 0, 0])
    Un, th = base.unittwist_norm(S)
    h.eq('theta^2 = |v|^2', th * th, nsq(v), scale=1 + nsq(v))
    h.eq('direction kept', Un * th, S, scale=1 + nsq(S))


@claim('unittwist-below-zero-threshold')
def _(h):
    """rotational part non-zero but below the library's zero threshold (numerical noise): treated as irrotational"""
    v = h.vec('v', 3, -1e6, 1e6)
    w = h.vec('w', 3, -1e-15, 1e-15)
    h.assume(nsq(v) >= 1e-6)
    h.assume(nsq(w) <= 4e-30)
    S = h.arr([v[0], v[1], v[2], w[0], w[1], w[2]])
    for nm, U in (('unittwist', base.unittwist(S)), ('unittwist_norm', base.unittwist_norm(S)[0])):
        h.eq(f'{nm}: unit translational part', nsq(U[0:3]), 1, tol=1e-12)
    h.eq('Twist3.unit', nsq(Twist3(S).unit.v), 1, tol=1e-12)


@claim('unittwist2-below-zero-threshold')
def _(h):
    v = h.vec('v', 2, -1e6, 1e6)
    w = h.real('w', -1e-15, 1e-15)
    h.assume(nsq(v) >= 1e-6)
    S = h.arr([v[0], v[1], w])
    h.eq('unit translational part', nsq(base.unittwist2(S)[0:2]), 1, tol=1e-12)


@claim('unittwist-zero')
def _(h):
    h.true('zero twist -> None', base.unittwist(h.arr([0, 0, 0, 0, 0, 0])) is None)
    r = base.unittwist_norm(h.arr([0, 0, 0, 0, 0, 0]))
    h.true('zero twist -> (None, None)', r[0] is None and r[1] is None)


@claim('unittwist2')
def _(h):
    S = h.vec('S', 3, -1e6, 1e6)
    h.assume(S[2] * S[2] >= 1e-12)
    U = base.unittwist2(S)
    h.eq('|w| = 1', U[2] * U[2], 1, tol=1e-12)
    Un, th = base.unittwist2_norm(S)
    h.eq('same', Un, U, tol=1e-12)
    h.eq('direction kept', U * th, S, scale=1 + nsq(S))
    h.true('theta > 0', th > 0)


@claim('unittwist2-irrotational')
def _(h):
    v = h.vec('v', 2, -1e6, 1e6)
    h.assume(nsq(v) >= 1e-12)
    S = h.arr([v[0], v[1], 0])
    U = base.unittwist2(S)
    h.eq('unit translational part', nsq(U[0:2]), 1, tol=1e-12)
    h.eq('w stays 0', U[2], 0)


@claim('angdiff-one-argument', values=True)
def _(h):
    a = h.real('a', -1e3, 1e3)
    d = base.angdiff(a)
    h.true('>= -pi', d >= -math.pi)
    h.true('< pi (half-open)', d <= math.pi)
    # congruent to a modulo 2 pi: (a - d) / (2 pi) is an integer
    _congruent(h, 'congruent mod 2pi', a - d)


@claim('angdiff-two-arguments', values=True)
def _(h):
    a, b = h.real('a', -1e3, 1e3), h.real('b', -1e3, 1e3)
    d = base.angdiff(a, b)
    h.true('>= -pi', d >= -math.pi)
    h.true('<= pi', d <= math.pi)
    _congruent(h, 'congruent to a-b mod 2pi', a - b - d)


def _congruent(h, label, x):
    """x is an integer multiple of 2*pi"""
    if h.mode == 'sym':
        import z3
        from symreal import core
        from symreal.core import Term
        c = core.ctx()
        k = c.fresh('cong', 'int')
        # exists k: x = 2 pi k  -- as an obligation we need it for all inputs: the library's own quotient variable
        # (introduced by the mod shim) is the witness; state the claim through it
        xt = Term.lift(x)
        ws = [v for v in getattr(c, 'modk', [])]
        conds = [xt.e == 2 * core.zpi() * z3.ToReal(w) for w in ws]
        h.true(label, core.SBool(z3.Or(conds) if conds else z3.BoolVal(False)))
    else:
        r = x / (2 * math.pi)
        h.true(label, abs(r - round(r)) < 1e-9)


@claim('Twist3.unit')
def _(h):
    S = h.vec('S', 6, -1e3, 1e3)
    w2 = nsq(S[3:6])
    h.assume(w2 >= 1e-6)
    U = Twist3(S).unit
    h.is_type('type', U, Twist3)
    h.eq('unit rotational part', nsq(U.w), 1, tol=1e-12)
    h.eq('direction kept', h.arr(cross(U.w, S[3:6])), [0, 0, 0], scale=1 + w2)


@claim('Twist2.unit')
def _(h):
    S = h.vec('S', 3, -1e3, 1e3)
    h.assume(S[2] * S[2] >= 1e-6)
    U = Twist2(S).unit
    h.is_type('type', U, Twist2)
    h.eq('|w| = 1', U.w * U.w, 1, tol=1e-12)


@claim('SO2-SE2-norm')
def _(h):
    R, th = so2(h, 'a')
    h.eq('SO2.norm fixed point', SO2(R, check=False).norm().A, R, tol=1e-12)
    T, R2, t, _ = se2(h, 'T')
    h.eq('SE2.norm fixed point', SE2(T, check=False).norm().A, T, tol=1e-12)
