"""C05 Angle-set and axis-angle extraction is a right inverse of construction."""
import math
import numpy as np
from symreal.api import Registry
from spatialmath import base, SO2, SE2, SO3, SE3, UnitQuaternion
from .common import *

REG = Registry('C05')
claim = REG.claim
EXPLANATION = ("C05: tr2rpy (3 orders + aliases), tr2eul (flip on/off), tr2angvec, tr2xyt and the class accessors executed on "
               "rotations built by the harness from angle atoms in the order under test; the library's own constructor applied "
               "to the extracted angles must reproduce R entrywise on every path (regular, exactly singular, inside the band).")
BOUNDS = ("R = product of three axis rotations with unbounded angle atoms (surjective onto SO(3)); axis-angle: D-grid axes with a "
          "symbolic angle in [0, pi]; planar: angle atom + |t|<=1e6; tolerance 1e-6 on threshold paths")
TIMEOUT = {'quick': 8, 'thorough': 120}
WALL_BUDGET = {'quick': 400, 'thorough': 1800}
ASSUMPTIONS = ["inside the singular band 0 < 1-|R31| < 10 eps the claim is the tolerance inequality (1e-6); reported inconclusive when z3 does not decide it"]


def FUNCS():
    return [base.tr2rpy, base.rpy2r, base.tr2eul, base.eul2r, base.tr2angvec, base.angvec2r, base.tr2xyt, base.xyt2tr,
            base.trlog, SO3.rpy, SO3.eul, SO3.angvec, UnitQuaternion.rpy, UnitQuaternion.eul, UnitQuaternion.angvec,
            SE2.xyt, SO2.theta]


ORD = {'zyx': 'zyx', 'vehicle': 'zyx', 'xyz': 'xyz', 'arm': 'xyz', 'yxz': 'yxz', 'camera': 'yxz'}


def rpy_ref(h, r, p, y, order):
    """documented axis orders"""
    o = ORD[order]
    if o == 'zyx':
        return matmul(matmul(rotz_ref(h, y), roty_ref(h, p)), rotx_ref(h, r))
    if o == 'xyz':
        return matmul(matmul(rotx_ref(h, y), roty_ref(h, p)), rotz_ref(h, r))
    return matmul(matmul(roty_ref(h, y), rotx_ref(h, p)), rotz_ref(h, r))


for _o in ORD:
    @claim(f'documented-order:{_o}')
    def _(h, o=_o):
        r, p, y = h.angle('r'), h.angle('p'), h.angle('y')
        h.eq('rpy2r', base.rpy2r(r, p, y, order=o), h.arr(rpy_ref(h, r, p, y, o)))
        h.eq('rpy2r packed', base.rpy2r([r, p, y], order=o), h.arr(rpy_ref(h, r, p, y, o)))

    @claim(f'rpy-roundtrip:{_o}', split=True, tier='quick' if _o in ('zyx', 'xyz', 'yxz') else 'thorough')
    def _(h, o=_o):
        r, p, y = h.angle('r'), h.angle('p'), h.angle('y')
        R = h.arr(rpy_ref(h, r, p, y, o))
        a = base.tr2rpy(R, order=o)
        h.true('3 angles', np.shape(a) == (3,))
        h.eq('rebuild', base.rpy2r(a, order=o), R, tol=1e-6)

    @claim(f'rpy-roundtrip-SE3-input:{_o}', split=True, tier='thorough')
    def _(h, o=_o):
        r, p, y = h.angle('r'), h.angle('p'), h.angle('y')
        R = h.arr(rpy_ref(h, r, p, y, o))
        T = hom(h, R, h.vec('t', 3, -1e6, 1e6))
        a = base.tr2rpy(T, order=o)
        h.eq('rebuild', base.rpy2r(a, order=o), R, tol=1e-6)

    @claim(f'rpy-exact-singularity:{_o}', split=True, tier='quick' if _o in ('zyx', 'xyz', 'yxz') else 'thorough')
    def _(h, o=_o):
        """pitch exactly +-90 deg"""
        for sgn in (1, -1):
            r, y = h.angle(f'r{sgn}'), h.angle(f'y{sgn}')
            p = sgn * math.pi / 2
            R = h.arr(rpy_ref(h, r, p, y, o))
            a = base.tr2rpy(R, order=o)
            h.eq(f'rebuild pitch={sgn}*90', base.rpy2r(a, order=o), R, tol=1e-6)


for _o in ('zyx', 'xyz', 'yxz'):
    @claim(f'rpy-ranges:{_o}', values=True)
    def _(h, o=_o):
        r, p, y = h.angle('r'), h.angle('p'), h.angle('y')
        R = h.arr(rpy_ref(h, r, p, y, o))
        a = base.tr2rpy(R, order=o)
        pi = math.pi
        for k in range(3):
            h.true(f'angle{k} >= -pi', a[k] >= -pi)
            h.true(f'angle{k} <= pi', a[k] <= pi)
        h.true('pitch >= -pi/2', a[1] >= -pi / 2)
        h.true('pitch <= pi/2', a[1] <= pi / 2)

    @claim(f'rpy-deg:{_o}')
    def _(h, o=_o):
        """same call in degrees: every path returns the radian result times 180/pi (decisions are shared between the two calls)"""
        r, p, y = h.angle('r'), h.angle('p'), h.angle('y')
        R = h.arr(rpy_ref(h, r, p, y, o))
        ar = base.tr2rpy(R, order=o)
        ad = base.tr2rpy(R, order=o, unit='deg')
        h.eq('deg = rad*180/pi', ad, ar * (180 / math.pi), tol=1e-9, scale=180)

    @claim(f'class-rpy:{_o}')
    def _(h, o=_o):
        r, p, y = h.angle('r'), h.angle('p'), h.angle('y')
        R = h.arr(rpy_ref(h, r, p, y, o))
        h.same('SO3.rpy', SO3(R, check=False).rpy(order=o), base.tr2rpy(R, order=o))
        h.same('SE3.rpy', SE3(hom(h, R, [1, 2, 3]), check=False).rpy(order=o), base.tr2rpy(R, order=o))
        h.same('SO3.rpy deg', SO3(R, check=False).rpy(order=o, unit='deg'), base.tr2rpy(R, order=o, unit='deg'))


@claim('rpy-bad-order')
def _(h):
    R, _ = rot_quat(h, 'R')
    h.raises('tr2rpy', lambda: base.tr2rpy(R, order='zxy'), ValueError)
    h.raises('rpy2r', lambda: base.rpy2r(0.1, 0.2, 0.3, order='zxy'), ValueError)


def eul_ref(h, a, b, c):
    return matmul(matmul(rotz_ref(h, a), roty_ref(h, b)), rotz_ref(h, c))


for _flip in (False, True):
    @claim(f'eul-roundtrip:flip={_flip}', split=True)
    def _(h, flip=_flip):
        a, b, c = h.angle('a'), h.angle('b'), h.angle('c')
        R = h.arr(eul_ref(h, a, b, c))
        e = base.tr2eul(R, flip=flip)
        h.eq('rebuild', base.eul2r(e), R, tol=1e-6)

    @claim(f'eul-exact-singularity:flip={_flip}', split=True)
    def _(h, flip=_flip):
        """middle angle exactly 0 or pi"""
        for nm, b in (('0', 0), ('pi', math.pi)):
            a, c = h.angle('a' + nm), h.angle('c' + nm)
            R = h.arr(eul_ref(h, a, b, c))
            e = base.tr2eul(R, flip=flip)
            h.eq(f'rebuild middle={nm}', base.eul2r(e), R, tol=1e-6)


for _flip in (False, True):
    @claim(f'eul-ranges:flip={_flip}', values=True)
    def _(h, flip=_flip):
        """every extracted Euler angle lies in [-pi, pi] (radians) and the degree form is the radian form times 180/pi"""
        a, b, c = h.angle('a'), h.angle('b'), h.angle('c')
        R = h.arr(eul_ref(h, a, b, c))
        e = base.tr2eul(R, flip=flip)
        pi = math.pi
        for k in range(3):
            h.true(f'angle{k} >= -pi', e[k] >= -pi)
            h.true(f'angle{k} <= pi', e[k] <= pi)
        ed = base.tr2eul(R, flip=flip, unit='deg')
        h.eq('deg = rad*180/pi', ed, e * (180 / pi), tol=1e-9, scale=180)


@claim('eul-documented-order')
def _(h):
    a, b, c = h.angle('a'), h.angle('b'), h.angle('c')
    h.eq('eul2r', base.eul2r(a, b, c), h.arr(eul_ref(h, a, b, c)))
    h.eq('eul2r packed', base.eul2r([a, b, c]), h.arr(eul_ref(h, a, b, c)))


@claim('eul-deg')
def _(h):
    a, b, c = h.angle('a'), h.angle('b'), h.angle('c')
    R = h.arr(eul_ref(h, a, b, c))
    h.eq('deg = rad*180/pi', base.tr2eul(R, unit='deg'), base.tr2eul(R) * (180 / math.pi), scale=180)


@claim('xyt-roundtrip', values=True)
def _(h):
    T, R, t, th = se2(h, 'T')
    xyt = base.tr2xyt(T)
    h.eq('rebuild', base.xyt2tr(xyt), T, scale=1 + nsq(t))
    h.true('theta >= -pi', xyt[2] >= -math.pi)
    h.true('theta <= pi', xyt[2] <= math.pi)
    X = SE2(T, check=False)
    h.eq('SE2.xyt', X.xyt(), xyt, scale=1 + nsq(t))
    h.eq('SE2.theta', X.theta(), xyt[2])
    h.eq('SO2.theta', SO2(R, check=False).theta(), xyt[2])
    h.eq('theta deg', X.theta(unit='deg'), xyt[2] * (180 / math.pi), scale=180)


for _ax in ('z', 'x', '-y', '340', '122', '236', '447', '269'):
    @claim(f'angvec-roundtrip:{_ax}', values=True, split=True, tier='quick' if _ax in ('z', '236', '-y') else 'thorough')
    def _(h, ax=_ax):
        R, th = rot_axis(h, 'th', AXES[ax], 1e-3, 3.14)
        theta, v = base.tr2angvec(R)
        h.eq('unit axis', nsq(v), 1, tol=1e-6)
        h.true('theta >= 0', theta >= 0)
        h.true('theta <= pi', theta <= math.pi)
        h.eq('theta recovered', theta, th, tol=1e-6)
        h.eq('rebuild', base.angvec2r(theta, v), R, tol=1e-6)


@claim('angvec-identity')
def _(h):
    theta, v = base.tr2angvec(np.eye(3))
    h.eq('theta', theta, 0)
    h.eq('zero axis', v, [0, 0, 0])


@claim('class-eul')
def _(h):
    a, b, c = h.angle('a'), h.angle('b'), h.angle('c')
    R = h.arr(eul_ref(h, a, b, c))
    h.same('SO3.eul', SO3(R, check=False).eul(), base.tr2eul(R))
    h.same('SO3.eul deg', SO3(R, check=False).eul(unit='deg'), base.tr2eul(R, unit='deg'))


@claim('class-eul-flip')
def _(h):
    a, b, c = h.angle('a'), h.angle('b'), h.angle('c')
    R = h.arr(eul_ref(h, a, b, c))
    h.same('SO3.eul(flip=True)', SO3(R, check=False).eul(flip=True), base.tr2eul(R, flip=True))


for _o in ('zyx', 'xyz', 'yxz'):
    @claim(f'class-rpy-multi:{_o}')
    def _(h, o=_o):
        """the accessor on an object holding two rotations: each column rebuilds its own rotation (order and unit honoured)"""
        # one symbolic and one concrete element: every branch of tr2rpy is reached through the symbolic one, the concrete
        # one shows that each element gets its own column (two symbolic elements square the number of paths)
        # (narrow generic ranges: the plumbing of order / unit through the multi-valued accessor is the subject; the branches
        # of tr2rpy over the whole range belong to rpy-roundtrip:* and class-rpy:*)
        r, p, y = h.angle('r0', 0.2, 0.4), h.angle('p0', -0.5, -0.3), h.angle('y0', 0.4, 0.6)
        Rs = [h.arr(rpy_ref(h, r, p, y, o)), h.arr(rpy_ref(h, 0.3, -0.4, 0.5, o))]
        for cls, mk in ((SO3, lambda R: R), (SE3, lambda R: hom(h, R, [1, 2, 3]))):
            X = cls([mk(R) for R in Rs], check=False)
            a = np.asarray(X.rpy(order=o))
            h.true(f'{cls.__name__}: shape (3, 2)', a.shape == (3, 2))
            if a.shape != (3, 2):
                continue
            for i in range(2):
                # column i is what the base function gives for element i with the same order (its own round trip is
                # the subject of rpy-roundtrip:*), compared structurally
                h.same(f'{cls.__name__}: column {i} = tr2rpy(element {i}, order)', a[:, i], base.tr2rpy(Rs[i], order=o))
            d = np.asarray(X.rpy(order=o, unit='deg'))
            for i in range(2):
                h.same(f'{cls.__name__}: degrees, column {i}', d[:, i], base.tr2rpy(Rs[i], order=o, unit='deg'))


# ----------------------------------------------------------------------------- UnitQuaternion accessors (both members of the double cover)

UQ_RANGES = {'s>0': (0.1, 1.5), 's<0': (1.65, 3.0)}      # half angle hf; the scalar part is cos(hf)

for _ax in ('z', '236'):
    for _rn, (_lo, _hi) in UQ_RANGES.items():
        @claim(f'uq-angvec:{_ax}:{_rn}', values=True, split=True)
        def _(h, ax=_ax, lo=_lo, hi=_hi):
            """UnitQuaternion.angvec() of q = (cos hf, sin hf * u): the extracted pair rebuilds q's rotation (also when the
            scalar part is negative), the angle lies in [0, pi], the axis is a unit vector, degrees = radians * 180/pi"""
            hf = h.angle('hf', lo, hi)
            s2, c2 = h.sincos(hf)
            if h.sym:
                h.sqrt_hint(2 * s2 * c2)        # |sin(2 hf)|: the norm of the antisymmetric part of the rotation matrix
            u = [Fraction(x) for x in AXES[ax]] if h.sym else [float(Fraction(x)) for x in AXES[ax]]
            q = h.arr([c2, s2 * u[0], s2 * u[1], s2 * u[2]])
            Q = UnitQuaternion(q, norm=False, check=False)
            R = h.arr(q2r_ref(q))
            theta, v = Q.angvec()
            h.eq('unit axis', nsq(v), 1, tol=1e-6)
            h.true('theta >= 0', theta >= 0)
            h.true('theta <= pi', theta <= math.pi * (1 + 1e-12))
            h.eq('rebuild', base.angvec2r(theta, v), R, tol=1e-6)
            td, vd = Q.angvec(unit='deg')
            h.eq('degrees', td, theta * (180 / math.pi), tol=1e-9, scale=180)
            h.eq('same axis in degrees', vd, v, tol=1e-9)


def _uq(h):
    q = unit_quat(h, 'q')
    return q, UnitQuaternion(q, norm=False, check=False)


for _o in ('zyx', 'xyz', 'yxz'):
    for _u in ('rad', 'deg'):
        @claim(f'uq-rpy:{_o}:{_u}')
        def _(h, o=_o, u=_u):
            """UnitQuaternion.rpy is the base extraction applied to the quaternion's own rotation matrix, for every order and
            unit (the extraction itself is the subject of rpy-roundtrip)"""
            q, Q = _uq(h)
            h.same(f'rpy {o} {u}', Q.rpy(order=o, unit=u), base.tr2rpy(Q.R, order=o, unit=u))

for _u in ('rad', 'deg'):
    @claim(f'uq-eul:{_u}')
    def _(h, u=_u):
        q, Q = _uq(h)
        h.same(f'eul {u}', Q.eul(unit=u), base.tr2eul(Q.R, unit=u))


@claim('uq-R')
def _(h):
    q, Q = _uq(h)
    h.eq('R is the rotation of q', Q.R, q2r_ref(q), tol=1e-12)
