"""C17 Functions and operators never modify their arguments."""
import copy
import operator
import numpy as np
from symreal.api import Registry
from spatialmath import (base, SO2, SE2, SO3, SE3, Quaternion, UnitQuaternion, Twist3, Twist2, Plucker, SpatialVelocity,
                         SpatialAcceleration, SpatialForce, SpatialInertia, DualQuaternion)
from .common import *
from . import c15, c08

REG = Registry('C17')
claim = REG.claim
EXPLANATION = ("C17: base functions, constructors, operators and methods are executed on symbolic arguments in every accepted "
               "container form; every array cell / list element / object value reachable from the arguments is compared before "
               "and after the call (identical expression node => bit-for-bit unchanged), on every explored path including the "
               "exceptional ones; the same call evaluated twice must give structurally identical results.")
BOUNDS = "argument values symbolic; container forms list/tuple/1-D/row/column (base) and list/tuple/1-D (classes); single- and 2-valued receivers"
TIMEOUT = {'quick': 8, 'thorough': 60}


def FUNCS():
    return [getattr(base, n) for n in ('skew', 'skewa', 'vex', 'vexa', 'transl', 'trotx', 'rpy2r', 'eul2r', 'angvec2r', 'oa2r', 'trexp',
                                       'trlog', 'trinv', 'trnorm', 'tr2rpy', 'tr2eul', 'tr2angvec', 'tr2delta', 'tr2jac', 'adjoint', 't2r',
                                       'r2t', 'tr2rt', 'rt2tr', 'homtrans', 'e2h', 'h2e', 'qqmul', 'qvmul', 'unit', 'q2r', 'r2q', 'slerp',
                                       'trinterp', 'unitvec', 'unittwist', 'getvector', 'isrot', 'ishom')]


class Snapshot:
    def __init__(self, h, args):
        self.h = h
        self.items = []
        for k, a in enumerate(args):
            self._add(f'arg{k}', a)

    def _add(self, label, a):
        if isinstance(a, np.ndarray):
            self.items.append((label, 'array', a, a.copy(), a.shape, a.dtype))
        elif isinstance(a, (list, tuple)):
            self.items.append((label, 'seq', a, list(a), len(a), type(a)))
            for i, x in enumerate(a):
                if isinstance(x, (np.ndarray, list)) or isinstance(getattr(x, 'data', None), list):
                    self._add(f'{label}[{i}]', x)
        elif hasattr(a, 'data') and isinstance(getattr(a, 'data'), list):
            self.items.append((label, 'obj', a, [d.copy() if isinstance(d, np.ndarray) else d for d in a.data], len(a.data), type(a)))
        elif hasattr(a, 'real') and hasattr(a, 'dual') and not isinstance(a, (int, float)):
            self._add(label + '.real', a.real)
            self._add(label + '.dual', a.dual)

    def check(self, when=''):
        h = self.h
        for label, kind, obj, old, shape, typ in self.items:
            lab = f'{label} unchanged{when}'
            if kind == 'array':
                h.true(lab + ': shape/dtype', obj.shape == shape and obj.dtype == typ)
                if obj.shape == shape:
                    h.same(lab, obj, old, bitwise=True)
            elif kind == 'seq':
                h.true(lab + ': length/type', len(obj) == shape and type(obj) is typ)
                if len(obj) == shape:
                    for i, (x, y) in enumerate(zip(obj, old)):
                        if isinstance(y, (np.ndarray, list, tuple)) or isinstance(getattr(y, 'data', None), list):
                            h.true(f'{lab}: element {i} identity', x is y)
                        else:
                            h.same(f'{lab}: element {i}', x, y, bitwise=True)
            else:
                h.true(lab + ': length/type', len(obj.data) == shape and type(obj) is typ)
                if len(obj.data) == shape:
                    for i, (x, y) in enumerate(zip(obj.data, old)):
                        h.same(f'{lab}: value {i}', x, y, bitwise=True)


def guarded(h, fn, args):
    """call fn(*args); arguments must be unchanged afterwards whether it returns or raises; returns the result or None"""
    snap = Snapshot(h, args)
    try:
        r = fn(*args)
    except Exception as e:      # noqa: BLE001
        from symreal.api import _looks_not_encodable
        from symreal.core import NotEncodable
        if isinstance(e, NotEncodable) or _looks_not_encodable(e):
            raise
        snap.check(' (after exception)')
        return None
    snap.check()
    return r


def same_result(h, label, a, b):
    if a is None or b is None:
        h.true(label, a is None and b is None)
    elif isinstance(a, (tuple, list)):
        h.true(label + ': same length', len(a) == len(b))
        for k, (x, y) in enumerate(zip(a, b)):
            same_result(h, f'{label}[{k}]', x, y)
    elif hasattr(a, 'real') and hasattr(a, 'dual') and hasattr(a, 'vec'):
        h.same(label, a.vec, b.vec, bitwise=True)
    elif hasattr(a, 'data') and isinstance(a.data, list):
        for k, (x, y) in enumerate(zip(a.data, b.data)):
            h.same(f'{label}.{k}', x, y, bitwise=True)
    elif isinstance(a, (bool, np.bool_)) or type(a).__name__ == 'SBool':
        h.true(label, c15._same_truth(a, b))
    else:
        h.same(label, a, b, bitwise=True)


# ----------------------------------------------------------------------------- base functions with vector arguments, every form

for _name, (_fn, _lens) in c15.BASE_VEC.items():
    @claim(f'base-vec:{_name}', tier='quick' if _name in c15.QUICK_BASE else 'thorough')
    def _(h, name=_name, fn=_fn, lens=_lens):
        vs = c15.vecs(h, lens)
        if name == 'v2q':
            h.assume(nsq(vs[0]) <= 0.9)
        if name == 'oa2r':
            h.assume(nsq(cross(vs[0], vs[1])) >= 0.01)
        for form in c15.FORMS:
            if name in c15.ONE_D_ONLY and form in ('row', 'column'):
                continue
            args = [c15.FORMS[form](h, v) for v in vs]
            r1 = guarded(h, fn, args)
            r2 = guarded(h, fn, args)
            same_result(h, f'{form}: twice the same', r1, r2)


# ----------------------------------------------------------------------------- base functions with matrix arguments

def _R(h):
    return h.arr(rotz_ref(h, h.angle('a')))


def _T(h):
    return hom(h, rotz_ref(h, h.angle('a')), h.vec('t', 3, -5, 5))


def _T2(h):
    return hom(h, rot2_ref(h, h.angle('a')), h.vec('t', 2, -5, 5))


BASE_MAT = {
    't2r': (lambda T: base.t2r(T), [_T]),
    'r2t': (lambda R: base.r2t(R), [_R]),
    'tr2rt': (lambda T: base.tr2rt(T), [_T]),
    'rt2tr': (lambda R, t: base.rt2tr(R, t), [_R, lambda h: h.vec('t', 3, -5, 5)]),
    'trinv': (lambda T: base.trinv(T), [_T]),
    'trinv2': (lambda T: base.trinv2(T), [_T2]),
    'trnorm': (lambda T: base.trnorm(T), [_T]),
    'tr2rpy': (lambda T: base.tr2rpy(T), [_T]),
    'tr2eul': (lambda T: base.tr2eul(T), [_T]),
    'tr2angvec': (lambda R: base.tr2angvec(R), [_R]),
    'tr2xyt': (lambda T: base.tr2xyt(T), [_T2]),
    'trlog-so3': (lambda R: base.trlog(R), [_R]),
    'trlog-se3': (lambda T: base.trlog(T), [_T]),
    'trexp-matrix': (lambda S: base.trexp(S), [lambda h: base.skewa(h.vec('s', 6, -1, 1))]),
    'vex': (lambda S: base.vex(S), [lambda h: h.mat('S', 3, 3)]),
    'vexa': (lambda S: base.vexa(S), [lambda h: h.mat('S', 4, 4)]),
    'adjoint': (lambda T: base.adjoint(T), [_T]),
    'tr2jac': (lambda T: base.tr2jac(T), [_T]),
    'tr2delta': (lambda T: base.tr2delta(T), [_T]),
    'tr2delta2': (lambda A, B: base.tr2delta(A, B), [_T, lambda h: hom(h, rotx_ref(h, h.angle('b')), h.vec('u', 3, -5, 5))]),
    'isrot': (lambda R: base.isrot(R, check=True), [_R]),
    'ishom': (lambda T: base.ishom(T, check=True), [_T]),
    'isskew': (lambda S: base.isskew(S), [lambda h: h.mat('S', 3, 3)]),
    'iseye': (lambda S: base.iseye(S), [lambda h: h.mat('S', 3, 3)]),
    'r2q': (lambda R: base.r2q(R), [_R]),
    'homtrans': (lambda T, P: base.homtrans(T, P), [_T, lambda h: h.mat('P', 3, 2, -5, 5)]),
    'e2h': (lambda P: base.e2h(P), [lambda h: h.mat('P', 3, 2, -5, 5)]),
    'h2e': (lambda P: base.h2e(P), [lambda h: h.mat('P', 4, 2, 1, 5)]),
    'trinterp': (lambda T: base.trinterp(None, T, 0.5), [_T]),
    'trinterp2': (lambda T: base.trinterp2(None, T, 0.5), [_T2]),
    'trprint-free': (lambda R: base.det(R), [_R]),
}
QUICK_MAT = {'t2r', 'r2t', 'tr2rt', 'rt2tr', 'trinv', 'trnorm', 'tr2rpy', 'tr2eul', 'trlog-se3', 'trexp-matrix', 'vex', 'vexa', 'adjoint',
             'tr2jac', 'tr2delta2', 'isrot', 'r2q', 'homtrans', 'e2h', 'h2e', 'trinv2', 'tr2xyt'}

for _name, (_fn, _mk) in BASE_MAT.items():
    @claim(f'base-mat:{_name}', tier='quick' if _name in QUICK_MAT else 'thorough')
    def _(h, fn=_fn, mk=_mk):
        args = [m(h) for m in mk]
        r1 = guarded(h, fn, args)
        r2 = guarded(h, fn, args)
        same_result(h, 'twice the same', r1, r2)


@claim('views-are-not-written-through')
def _(h):
    """t2r / tr2rt / .R / .t return views of their argument; their consumers must not write through them"""
    T = _T(h)
    before = T.copy()
    R = base.t2r(T)
    base.trnorm(R); base.tr2rpy(R); base.r2q(R); base.trlog(R); base.r2t(R)
    X = SE3(T, check=False)
    Rv, tv = X.R, X.t
    (X * X); X.inv(); X.rpy(); SO3(Rv, check=False).inv()
    h.same('T unchanged', T, before, bitwise=True)
    h.same('object value unchanged', X.A, before, bitwise=True)


# ----------------------------------------------------------------------------- class constructors / methods

for _name, (_fn, _lens) in c15.CLASS_VEC.items():
    @claim(f'class-vec:{_name}', tier='quick' if _name in c15.QUICK_CLASS else 'thorough')
    def _(h, fn=_fn, lens=_lens):
        vs = c15.vecs(h, lens)
        for form in c15.CLASS_FORMS:
            args = [c15.FORMS[form](h, v) for v in vs]
            r1 = guarded(h, fn, args)
            r2 = guarded(h, fn, args)
            same_result(h, f'{form}: twice the same', r1, r2)


@claim('constructor-does-not-alias-mutably')
def _(h):
    """constructing from an array / a list of arrays leaves them unchanged, also after operating on the object"""
    T = _T(h)
    lst = [T, np.eye(4)]
    snap = Snapshot(h, [T, lst])
    X = SE3(T, check=False)
    Y = SE3(lst, check=False)
    Z = X * Y
    Z2 = X.inv() * Y.inv()
    X ** 2
    snap.check()


# ----------------------------------------------------------------------------- operators: both operands unchanged

OPS = {'*': operator.mul, '/': operator.truediv, '+': operator.add, '-': operator.sub, '==': operator.eq, '!=': operator.ne}
PAIRS = [('SO2', 'SO2'), ('SE2', 'SE2'), ('SO3', 'SO3'), ('SE3', 'SE3'), ('Quaternion', 'Quaternion'), ('UnitQuaternion', 'UnitQuaternion'),
         ('Quaternion', 'UnitQuaternion'), ('Twist3', 'Twist3'), ('Twist3', 'SE3'), ('Twist2', 'SE2'), ('SE3', 'Plucker'),
         ('SE3', 'SpatialVelocity'), ('SE3', 'SpatialForce'), ('SpatialVelocity', 'SpatialVelocity'),
         ('DualQuaternion', 'DualQuaternion'), ('SE3', 'scalar'), ('Quaternion', 'scalar'),
         ('scalar', 'SE3'), ('Plucker', 'Plucker'), ('SE3', 'SO3'), ('SO3', 'SE2')]

for _L, _R_ in PAIRS:
    @claim(f'operators:{_L},{_R_}')
    def _(h, L=_L, R=_R_):
        a, _ = c08.make(h, L, 'L')
        b, _ = c08.make(h, R, 'R')
        for opn, f in OPS.items():
            r1 = guarded(h, f, [a, b])
            r2 = guarded(h, f, [a, b])
            if r1 is not None and r2 is not None:
                same_result(h, f'{opn}: twice the same', r1, r2)


@claim('operators:SpatialInertia')
def _(h):
    J, _ = c08.make(h, 'SpatialInertia', 'L')
    K, _ = c08.make(h, 'SpatialInertia', 'R')
    acc, _ = c08.make(h, 'SpatialAcceleration', 'A')
    for opn, f, args in (('+', operator.add, [J, K]), ('* acc', operator.mul, [J, acc])):
        r1 = guarded(h, f, args)
        r2 = guarded(h, f, args)
        if r1 is not None and r2 is not None:
            same_result(h, f'{opn}: twice the same', r1, r2)


@claim('augmented-operators-right-operand')
def _(h):
    a, _ = c08.make(h, 'SE3', 'L')
    b, _ = c08.make(h, 'SE3', 'R')
    snap = Snapshot(h, [b])
    a *= b
    a /= b
    snap.check()
    q, _ = c08.make(h, 'UnitQuaternion', 'P')
    r, _ = c08.make(h, 'UnitQuaternion', 'Q')
    snap2 = Snapshot(h, [r])
    q *= r
    snap2.check()


@claim('multi-valued-receivers')
def _(h):
    T1, T2 = _T(h), hom(h, rotx_ref(h, h.angle('b')), h.vec('u', 3, -5, 5))
    X = SE3([T1, T2], check=False)
    snap = Snapshot(h, [X])
    X.inv(); X.R; X.t; X * X; X * h.vec('p', 3, -5, 5); X ** 2; X.prod(); X[0]; X[0:1]; len(X); X.det(); [y for y in X]
    X.rpy(); X.eul()
    snap.check()


SE3_METHODS = {
    'inv': lambda X: X.inv(), 'R': lambda X: X.R, 't': lambda X: X.t, 'rpy': lambda X: X.rpy(), 'eul': lambda X: X.eul(),
    'angvec': lambda X: X.angvec(), 'log': lambda X: X.log(), 'Ad': lambda X: X.Ad(), 'jacob': lambda X: X.jacob(),
    'delta': lambda X: X.delta(X), 'Twist3': lambda X: X.Twist3(), 'det': lambda X: X.det(), 'norm': lambda X: X.norm(),
    'interp': lambda X: X.interp(0.5), 'noa': lambda X: (X.n, X.o, X.a), 'UnitQuaternion': lambda X: UnitQuaternion(X),
    'pow': lambda X: X ** 3, 'prod': lambda X: X.prod(), 'index': lambda X: X[0],
}
QUICK_METHODS = {'inv', 'R', 't', 'rpy', 'Ad', 'jacob', 'delta', 'det', 'norm', 'noa', 'pow', 'prod', 'index', 'eul'}

for _m, _f in SE3_METHODS.items():
    @claim(f'method:SE3.{_m}', tier='quick' if _m in QUICK_METHODS else 'thorough')
    def _(h, f=_f):
        X = SE3(_T(h), check=False)
        snap = Snapshot(h, [X])
        r1 = f(X)
        snap.check()
        r2 = f(X)
        same_result(h, 'twice the same', r1, r2)


UQ_METHODS = {
    'inv': lambda u: u.inv(), 'R': lambda u: u.R, 'vec': lambda u: (u.vec, u.s, u.v), 'conj': lambda u: u.conj(), 'norm': lambda u: u.norm(),
    'rpy': lambda u: u.rpy(), 'SO3': lambda u: u.SO3(), 'SE3': lambda u: u.SE3(), 'interp': lambda u: u.interp(0.5), 'matrix': lambda u: u.matrix,
    'vec3': lambda u: u.vec3, 'pow': lambda u: u ** 2,
}

for _m, _f in UQ_METHODS.items():
    @claim(f'method:UnitQuaternion.{_m}', tier='quick' if _m not in ('interp', 'rpy') else 'thorough')
    def _(h, f=_f):
        u, _ = c08.make(h, 'UnitQuaternion', 'U')
        snap = Snapshot(h, [u])
        r1 = f(u)
        snap.check()
        r2 = f(u)
        same_result(h, 'twice the same', r1, r2)


# ----------------------------------------------------------------------------- option combinations of the interpolators (receiver and dest)

for _sh in (False, True):
    @claim(f'method:UnitQuaternion.interp-dest:shortest={_sh}')
    def _(h, sh=_sh):
        """both quaternions symbolic, so both signs of their inner product are explored"""
        u, _ = c08.make(h, 'UnitQuaternion', 'U')
        v, _ = c08.make(h, 'UnitQuaternion', 'V')
        s = h.real('s', 0.1, 0.9)
        snap = Snapshot(h, [u, v])
        r1 = u.interp(s, dest=v, shortest=sh)
        snap.check()
        r2 = u.interp(s, dest=v, shortest=sh)
        same_result(h, 'twice the same', r1, r2)

    @claim(f'base-vec:slerp:shortest={_sh}')
    def _(h, sh=_sh):
        s1, c1 = h.sincos(h.angle('a'))
        s2, c2 = h.sincos(h.angle('b'))
        q0, q1 = h.arr([c1, s1, 0, 0]), h.arr([c2, 0, s2, 0])
        s = h.real('s', 0.1, 0.9)
        r1 = guarded(h, lambda a, b: base.slerp(a, b, s, shortest=sh), [q0, q1])
        r2 = guarded(h, lambda a, b: base.slerp(a, b, s, shortest=sh), [q0, q1])
        same_result(h, 'twice the same', r1, r2)


@claim('method:SE3.interp-start', tier='thorough')
def _(h):
    X = SE3(_T(h), check=False)
    Y = SE3(hom(h, rotz_ref(h, h.angle('b')), h.vec('u', 3, -5, 5)), check=False)
    snap = Snapshot(h, [X, Y])
    X.interp(0.5, start=Y)
    snap.check()


@claim('base-vec:removesmall')
def _(h):
    v = h.vec('v', 3, -1e-13, 1e-13)
    for form in ('array1d', 'row'):
        arg = c15.FORMS[form](h, v)
        r1 = guarded(h, base.removesmall, [arg])
        r2 = guarded(h, base.removesmall, [arg])
        same_result(h, f'{form}: twice the same', r1, r2)


@claim('printing-does-not-modify')
def _(h):
    """repr / str / printline of objects whose matrices contain entries below the display threshold (concrete tiny entries:
    formatting needs floats; the symbolic part is the translation)"""
    import math
    T = base.trotx(math.pi / 2)          # holds 6.1e-17 entries
    X = SE3(T, check=False)
    before = T.copy()
    from symreal.core import Ctx
    saved, Ctx.cur = Ctx.cur, None          # formatting runs on plain floats (no symbolic allocation while printing)
    try:
        repr(X); str(X); X.printline(file=None)
        tw = Twist3(np.array([1.0, 0.0, 1e-17, 0.0, 0.0, 1.0]))
        tb = tw.S.copy()
        str(tw); repr(tw)
    finally:
        Ctx.cur = saved
    k = h.real('k', 1, 2)
    h.eq('SE3 matrix unchanged by repr/str', X.A * k, before * k, exact_only=True)
    h.eq('Twist3 unchanged by str', tw.S * k, tb * k, exact_only=True)


@claim('matrix-argument-constructors')
def _(h):
    """constructors that take a whole array (N x 4 table of quaternions, N x 3 table of angles, 3 x 3 / 4 x 4 matrices, with
    the default normalising / checking options) leave it unchanged"""
    A = h.mat('A', 2, 4, -5, 5)
    h.assume(nsq(A[0]) >= 1e-2)
    h.assume(nsq(A[1]) >= 1e-2)
    guarded(h, lambda M: UnitQuaternion(M), [A])
    guarded(h, lambda M: Quaternion(M), [A])
    G = h.mat('G', 2, 3, -1.5, 1.5)
    guarded(h, lambda M: SO3.RPY(M), [G])
    guarded(h, lambda M: SE3.Eul(M), [G])
    R = _R(h)
    guarded(h, lambda M: UnitQuaternion(M), [R])
    guarded(h, lambda M: SO3(M), [R])
    guarded(h, lambda M: SE3(M), [_T(h)])
