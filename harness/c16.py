"""C16 Symbolic results agree with numeric results.

Every API entry whose docstring says ':SymPy: supported' (harvested from the source at run time and compared with
the table below) is executed twice: (1) through the R-model of the numeric path (Term scalars, this engine) and
(2) with REAL SymPy symbols in a fresh, unshimmed interpreter (the library's own symbolic path).  The SymPy result
is translated to the same variables (sin/cos of a symbol -> the atom's pair) and compared entrywise by z3."""
import ast
import json
import math
import os
import re
import subprocess
import sys
import numpy as np
from symreal.api import Registry
from symreal.core import Term
from spatialmath import base, SO2, SE2, SO3, SE3, Quaternion, UnitQuaternion, Twist3
from .common import *

REG = Registry('C16')
claim = REG.claim
EXPLANATION = ("C16: each ':SymPy: supported' entry is run on Term scalars (numeric path in exact arithmetic) and on real SymPy "
               "symbols in an unshimmed interpreter; z3 decides entrywise equality of the two results for all values; structural "
               "0/1 entries must be exact on the symbolic side; an exception on one side only is a counterexample.")
ASSUMPTIONS = ["degree forms: SymPy's constant 0.0174532925199433 (the double nearest pi/180) is identified with math.pi/180 as an exact rational (relative difference <= 1.2e-16, i.e. <= 1e-13 in any sine/cosine for |angle| <= 1e3)"]
BOUNDS = "all-symbolic and mixed symbolic/numeric argument patterns, scalar and packed call forms, as listed in CALLS"
TIMEOUT = {'quick': 10, 'thorough': 60}
ROOT = os.path.dirname(os.path.dirname(os.path.abspath(__file__)))

ANGLES = ('a', 'b', 'c')
DEG_ANGLES = ('ad', 'bd', 'cd')      # degree-valued variables: h.deg(angle atom)
REALS = ('x', 'y', 'z', 'u', 'v', 'w', 'd0', 'd1', 'd2', 'd3', 'd4', 'd5', 'q0', 'q1', 'q2', 'q3')

# name -> python expression evaluated in both worlds (names: base, np, SO3, SE3, ..., angles a b c, reals x y z ...)
CALLS = {
    'rotx': 'base.rotx(a)', 'roty': 'base.roty(a)', 'rotz': 'base.rotz(a)',
    'trotx': 'base.trotx(a)', 'troty': 'base.troty(a)', 'trotz': 'base.trotz(a)',
    'trotx-t': 'base.trotx(a, t=[x, y, z])', 'trotz-t-mixed': 'base.trotz(a, t=[x, 2, 3])',
    'transl-scalars': 'base.transl(x, y, z)', 'transl-packed': 'base.transl([x, y, z])', 'transl-mixed': 'base.transl(x, 2.0, z)',
    'eul2r-packed': 'base.eul2r([a, b, c])', 'eul2r-scalars': 'base.eul2r(a, b, c)', 'eul2tr-packed': 'base.eul2tr([a, b, c])',
    'eul2r-mixed': 'base.eul2r([a, 0.3, c])',
    'delta2tr': 'base.delta2tr([d0, d1, d2, d3, d4, d5])',
    'trinv': 'base.trinv(base.trotx(a) @ base.transl(x, y, z))',
    'trinv2': 'base.trinv2(np.array([[x, -y, u], [y, x, v], [0, 0, 1]]))',
    'tr2delta': 'base.tr2delta(base.trotx(a) @ base.transl(x, y, z))',
    'tr2jac': 'base.tr2jac(base.trotx(a) @ base.transl(x, y, z))',
    'skew': 'base.skew([x, y, z])', 'skew1': 'base.skew([x])',
    'vex': 'base.vex(base.skew([x, y, z]))',
    'skewa': 'base.skewa([d0, d1, d2, d3, d4, d5])', 'skewa3': 'base.skewa([x, y, z])',
    'vexa': 'base.vexa(base.skewa([d0, d1, d2, d3, d4, d5]))',
    # degree forms (ad, bd, cd are angles in degrees; the numeric path converts them with getunit)
    'rotx-deg': 'base.rotx(ad, "deg")', 'roty-deg': 'base.roty(ad, unit="deg")', 'rotz-deg': 'base.rotz(ad, "deg")',
    'trotx-deg': 'base.trotx(ad, "deg")', 'trotz-deg-t': 'base.trotz(ad, unit="deg", t=[x, y, z])',
    'eul2r-scalars-deg': 'base.eul2r(ad, bd, cd, unit="deg")', 'eul2r-packed-deg': 'base.eul2r([ad, bd, cd], unit="deg")',
    'eul2r-mixed-scalars-deg': 'base.eul2r(ad, 20, cd, unit="deg")', 'eul2tr-scalars-deg': 'base.eul2tr(ad, bd, cd, unit="deg")',
    'SO3.Rx-deg': 'SO3.Rx(ad, "deg").A', 'SE3.Rz-deg': 'SE3.Rz(ad, "deg").A', 'SE3.Eul-deg': 'SE3.Eul([ad, bd, cd], unit="deg").A',
    'SO3.RPY-deg': 'SO3.RPY([ad, bd, cd], unit="deg").A', 'SE3.RPY-deg-xyz': 'SE3.RPY([ad, bd, cd], unit="deg", order="xyz").A',
    'getunit-deg-scalar': 'np.array([base.getunit(ad, "deg")])', 'getunit-deg-list': 'np.array(base.getunit([ad, 30], "deg"))',
    'det': 'base.det(np.array([[x, y], [u, v]]))',
    'det3': 'base.det(np.array([[x, y, z], [u, v, w], [d0, d1, d2]]))',
    'det3-mixed': 'base.det(np.array([[x, 2.0, z], [0.5, v, w], [d0, d1, -3.0]]))',
    'det3-rotation': 'base.det(base.eul2r(a, b, c))',
    'det4': 'base.det(np.array([[x, y, z, 1], [u, v, w, 2], [d0, d1, d2, 3], [q0, q1, q2, q3]]))',
    'det4-pose': 'base.det(base.trotx(a) @ base.transl(x, y, z))',
    'trinv-general': 'base.trinv(base.eul2tr(a, b, c) @ base.transl(x, y, z))',
    'norm2': 'base.norm([x, y]) ** 2', 'norm6': 'base.norm([d0, d1, d2, d3, d4, d5]) ** 2', 'normsq4': 'base.normsq([q0, q1, q2, q3])',
    'qpow3': 'base.qpow([q0, q1, q2, q3], 3)', 'qpow-neg': 'base.qpow([q0, q1, q2, q3], -2)', 'qpow0': 'base.qpow([q0, q1, q2, q3], 0)',
    # the length itself (not its square): a root that is simplified as if the symbols were positive shows only here
    'norm-one-symbol': 'np.array([base.norm([x, 0, 0])])', 'norm-repeated-symbol': 'np.array([base.norm([0, 3 * x, 4 * x])])',
    'norm-product': 'np.array([base.norm([x * y, 0])])', 'norm-generic': 'np.array([base.norm([x, y, 2])])',
    'norm': 'base.norm([x, y, z]) ** 2', 'normsq': 'base.normsq([x, y, z])', 'cross': 'base.cross(np.array([x, y, z]), np.array([u, v, w]))',
    'qpow': 'base.qpow([q0, q1, q2, q3], 2)', 'conj': 'base.conj([q0, q1, q2, q3])',
    'SO3.Rx': 'SO3.Rx(a).A', 'SO3.Ry': 'SO3.Ry(a).A', 'SO3.Rz': 'SO3.Rz(a).A',
    'SE3.Rx': 'SE3.Rx(a).A', 'SE3.Ry': 'SE3.Ry(a).A', 'SE3.Rz': 'SE3.Rz(a).A', 'SE3.Rx-t': 'SE3.Rx(a, t=[x, y, z]).A',
    'SO3.Eul': 'SO3.Eul([a, b, c]).A', 'SE3.Eul': 'SE3.Eul([a, b, c]).A',
    'SO3.RPY': 'SO3.RPY([a, b, c]).A', 'SE3.RPY': 'SE3.RPY([a, b, c]).A', 'SE3.RPY-xyz': "SE3.RPY([a, b, c], order='xyz').A",
    'SE3.Tx': 'SE3.Tx(x).A', 'SE3.Ty': 'SE3.Ty(x).A', 'SE3.Tz': 'SE3.Tz(x).A',
    'SE3(x,y,z)': 'SE3(x, y, z).A', 'SE3([x,y,z])': 'SE3([x, y, z]).A',
    'SE3.R': 'SE3.Rx(a).R', 'SE3.t': '(SE3.Tx(x) * SE3.Ty(y)).t',
    'SE3.inv': '(SE3.Rx(a) * SE3.Tx(x)).inv().A', 'SO3.inv': 'SO3.Rx(a).inv().A',
    'SE3.Ad': '(SE3.Rx(a) * SE3.Tx(x)).Ad()', 'SE3.jacob': 'SE3.Rx(a).jacob()',
    'SE3.Delta': 'base.delta2tr([d0, d1, d2, d3, d4, d5])',
    'compose': '(SE3.Rx(a) * SE3.Tx(x) * SE3.Rz(b)).A', 'compose-SO3': '(SO3.Rx(a) * SO3.Ry(b)).A',
    'act-on-point': 'SE3.Rx(a) * SE3.Tx(x) * [u, v, w]', 'act-on-point-SO3': 'SO3.Rz(a) * [u, v, w]',
    'simplify': '(SO3.Rx(a) * SO3.Rx(b)).simplify().A',
    'Twist3.Rx': 'Twist3.Rx([a]).S', 'Twist3.Ry': 'Twist3.Ry([a]).S', 'Twist3.Rz': 'Twist3.Rz([a]).S',
}
# documented entries -> which CALLS exercise them (checked against the harvested list)
COVERS = {'rotx', 'roty', 'rotz', 'trotx', 'troty', 'trotz', 'transl', 'eul2r', 'eul2tr', 'delta2tr', 'trinv', 'tr2delta', 'tr2jac',
          'skew', 'vex', 'skewa', 'vexa', 'det', 'norm', 'normsq', 'cross', 'qpow', 'conj', 'trinv2', '__init__', 'R', 't', 'inv', 'Ad',
          'jacob', 'Rx', 'Ry', 'Rz', 'Eul', 'RPY', 'Delta', 'Tx', 'Ty', 'Tz', 'simplify'}


def harvest():
    """names of functions whose docstring carries ':SymPy: supported' in the current source"""
    out = set()
    d = os.path.join(os.environ.get('VERIF_REPO', '/repo'), 'spatialmath')
    for dirpath, _, files in os.walk(d):
        for f in files:
            if not f.endswith('.py') or f in ('animate.py',):
                continue
            import warnings
            with warnings.catch_warnings():
                warnings.simplefilter('ignore')
                tree = ast.parse(open(os.path.join(dirpath, f)).read())
            for node in ast.walk(tree):
                if isinstance(node, ast.FunctionDef) and re.search(r':SymPy: supported', ast.get_docstring(node) or ''):
                    out.add(node.name)
    return out


def FUNCS():
    return [base.rotx, base.roty, base.rotz, base.trotx, base.transl, base.eul2r, base.eul2tr, base.delta2tr, base.trinv, base.trinv2,
            base.tr2delta, base.tr2jac, base.skew, base.vex, base.skewa, base.vexa, base.det, base.norm, base.normsq, base.cross,
            base.qpow, base.conj, SE3.Rx, SE3.Eul, SE3.RPY, SE3.Tx, SE3.inv, SE3.Ad, SE3.jacob, SE3.R.fget, SE3.t.fget, base.getunit,
            base.sym.sin, base.sym.cos]


_SYM_CACHE = {}
_SUB = r'''
import sys, json, warnings
warnings.filterwarnings('ignore')
import numpy as np, sympy
from spatialmath import base, SO2, SE2, SO3, SE3, Quaternion, UnitQuaternion, Twist3
a, b, c = sympy.symbols('a b c', real=True)
x, y, z, u, v, w, d0, d1, d2, d3, d4, d5, q0, q1, q2, q3 = sympy.symbols('x y z u v w d0 d1 d2 d3 d4 d5 q0 q1 q2 q3', real=True)
ad, bd, cd = sympy.symbols('ad bd cd', real=True)
try:
    r = eval(sys.argv[1])
    arr = np.asarray(r, dtype=object)
    out = dict(ok=True, shape=list(arr.shape), entries=[sympy.srepr(sympy.sympify(e)) for e in arr.ravel()],
               exact=[type(e).__name__ for e in arr.ravel()])
except Exception as e:
    out = dict(ok=False, exc=type(e).__name__, msg=str(e)[:200])
print('SYMRESULT ' + json.dumps(out))
'''


def sympy_side(code):
    """run the expression on real SymPy symbols in a fresh interpreter without shims"""
    if code not in _SYM_CACHE:
        env = dict(os.environ, PYTHONPATH=os.environ.get('VERIF_REPO', '/repo'), MPLBACKEND='Agg', PYTHONWARNINGS='ignore', PYTHONDONTWRITEBYTECODE='1')
        p = subprocess.run(['/venv/bin/python', '-c', _SUB, code], capture_output=True, text=True, env=env, timeout=300)
        res = None
        for line in p.stdout.splitlines():
            if line.startswith('SYMRESULT '):
                res = json.loads(line[len('SYMRESULT '):])
        _SYM_CACHE[code] = res or dict(ok=False, exc='HarnessError', msg=(p.stderr or '')[-300:])
    return _SYM_CACHE[code]


def to_value(h, expr, env):
    """translate a SymPy expression to the harness's scalar type (Term / float) over the same variables"""
    import sympy
    if isinstance(expr, sympy.Symbol):
        return env[expr.name]
    if isinstance(expr, (sympy.Integer, int)):
        return int(expr)
    if isinstance(expr, sympy.Rational):
        from fractions import Fraction
        return Fraction(int(expr.p), int(expr.q)) if h.sym else float(expr)
    if isinstance(expr, sympy.Float):
        f = float(expr)
        if h.sym and abs(f - math.pi / 180) < 1e-17:
            # the double nearest to pi/180 that SymPy prints for the degree conversion; the numeric path computes
            # x * math.pi / 180 (two operations).  Identified with the exact quotient (relative difference 1e-16, stated
            # in ASSUMPTIONS) so that the symbolic angle is the same atom as on the numeric path
            from fractions import Fraction
            from symreal.core import PI
            return PI / 180
        return f
    if isinstance(expr, sympy.Add):
        t = 0
        for a in expr.args:
            t = t + to_value(h, a, env)
        return t
    if isinstance(expr, sympy.Mul):
        t = 1
        for a in expr.args:
            t = t * to_value(h, a, env)
        return t
    if isinstance(expr, sympy.Pow):
        b, e = expr.args
        if isinstance(e, sympy.Integer):
            return to_value(h, b, env) ** int(e)
        if e == sympy.Rational(1, 2):
            v = to_value(h, b, env)
            return v.sqrt() if isinstance(v, Term) else math.sqrt(v)
        if e == sympy.Rational(-1, 2):
            v = to_value(h, b, env)
            return 1 / (v.sqrt() if isinstance(v, Term) else math.sqrt(v))
        raise ValueError(f'power {e}')
    if isinstance(expr, (sympy.sin, sympy.cos)):
        arg = to_value(h, expr.args[0], env)
        s, c = h.sincos(arg)
        return s if isinstance(expr, sympy.sin) else c
    if isinstance(expr, sympy.Abs):
        return abs(to_value(h, expr.args[0], env))
    if expr is sympy.pi:
        return math.pi
    raise ValueError(f'untranslatable SymPy node {type(expr).__name__}')


def compare(h, name, code):
    import sympy
    env = {n: h.angle(n) for n in ANGLES if re.search(rf'\b{n}\b', code)}
    env.update({n: h.real(n, -5, 5) for n in REALS if re.search(rf'\b{n}\b', code)})
    env.update({n: h.deg(h.angle(n + '_rad')) for n in DEG_ANGLES if re.search(rf'\b{n}\b', code)})
    ns = dict(base=base, np=np, SO2=SO2, SE2=SE2, SO3=SO3, SE3=SE3, Quaternion=Quaternion, UnitQuaternion=UnitQuaternion, Twist3=Twist3)
    ns.update(env)
    num_exc = None
    try:
        num = np.asarray(eval(code, ns), dtype=object)
    except Exception as e:      # noqa: BLE001
        from symreal.api import _looks_not_encodable
        from symreal.core import NotEncodable
        if isinstance(e, NotEncodable) or _looks_not_encodable(e):
            raise
        num_exc = e
    sy = sympy_side(code)
    if num_exc is not None:
        # Term scalars are routed like symbols wherever the library branches on issymbol()/dtype 'O', so an exception here
        # may belong to the symbolic branch.  Whether the *numeric* path accepts this call form does not depend on the
        # values: evaluate the same expression on plain floats.
        fl = dict(ns)
        fl.update({n: 0.3 + 0.1 * k for k, n in enumerate(env)})
        from symreal.core import Ctx
        saved, Ctx.cur = Ctx.cur, None
        try:
            eval(code, fl)
            numeric_accepts = True
        except Exception:      # noqa: BLE001
            numeric_accepts = False
        finally:
            Ctx.cur = saved
        if numeric_accepts and sy['ok'] and name in NUMERIC_REF:
            # the numeric branch is represented by its meaning over R, computed here independently of the library
            num = np.asarray(NUMERIC_REF[name](env), dtype=object)
            num_exc = None
        elif numeric_accepts and sy['ok']:
            from symreal.core import NotEncodable
            raise NotEncodable(f'Term run raised {type(num_exc).__name__} although floats and SymPy symbols are accepted: {num_exc}'[:200])
        elif numeric_accepts:
            h.true(f"numeric path accepts this call form, the symbolic path must too (Term run raised {type(num_exc).__name__}: "
                   f"{str(num_exc)[:60]}; SymPy run: {sy.get('exc')} {sy.get('msg', '')[:60]})", False)
        else:
            h.true('numeric path raises: symbolic path must raise too', not sy['ok'])
        if num_exc is not None:
            return
    h.true(f"symbolic path accepts the call form (raised {sy.get('exc')}: {sy.get('msg', '')[:80]})", sy['ok'])
    if not sy['ok']:
        return
    h.true('same shape', list(num.shape) == sy['shape'])
    if list(num.shape) != sy['shape']:
        return
    if code.startswith('base.det(') and code.endswith(')'):
        # det() switches on dtype 'O': Term arrays take the library's symbolic branch too, so the numeric branch
        # (np.linalg.det) is represented by its meaning over R, the cofactor expansion of the same matrix
        from symreal.shims import det as det_ref
        M = np.asarray(eval(code[len('base.det('):-1], ns), dtype=object)
        h.eq('symbolic branch = determinant (meaning of np.linalg.det over R)', num, det_ref(M), tol=1e-12)
    flat = num.ravel()
    for k, (s, ex) in enumerate(zip(sy['entries'], sy['exact'])):
        e = sympy.sympify(s)
        val = to_value(h, e, env)
        idx = list(np.unravel_index(k, num.shape)) if num.shape else []
        h.eq(f'entry{idx}', val, flat[k], tol=1e-12)
        nv = flat[k]
        if isinstance(nv, (int, np.integer)) or (isinstance(nv, Term) and nv.const is not None and nv.const in (0, 1)) or \
                (not isinstance(nv, Term) and nv in (0, 1) and h.sym):
            # structural constant on the numeric path: must be the exact 0 / 1 symbolically (not 1.0*..., not a float)
            h.true(f'entry{idx}: structural constant stays exact', e in (sympy.Integer(0), sympy.Integer(1)) or
                   (e.is_number and float(e) == float(nv if not isinstance(nv, Term) else nv.const)))


def _len(*v):
    t = sum((x * x for x in v[1:]), v[0] * v[0])
    return t.sqrt() if isinstance(t, Term) else math.sqrt(t)


# meaning over R of the numeric branch for calls where a Term is routed into the library's symbolic branch (base.norm asks
# issymbol()): used only when the Term run raises although plain floats and SymPy symbols are both accepted
NUMERIC_REF = {
    'norm-one-symbol': lambda e: [_len(e['x'], 0, 0)], 'norm-repeated-symbol': lambda e: [_len(0, 3 * e['x'], 4 * e['x'])],
    'norm-product': lambda e: [_len(e['x'] * e['y'], 0)], 'norm-generic': lambda e: [_len(e['x'], e['y'], 2)],
}


for _name, _code in CALLS.items():
    claim(f'sympy:{_name}')(lambda h, n=_name, c=_code: compare(h, n, c))


@claim('documented-entries-are-covered')
def _(h):
    """the table above exercises every entry the source documents as SymPy-supported"""
    k = h.real('k', 1, 2)
    missing = sorted(harvest() - COVERS)
    h.true(f'uncovered SymPy-supported entries: {missing}', not missing)
    h.eq('anchor', k * 1, k)
