"""C20 Spatial 6-vectors and inertia follow Featherstone's spatial algebra."""
import numpy as np
from symreal.api import Registry
from spatialmath import base, SE3, Twist3, SpatialVelocity, SpatialAcceleration, SpatialForce, SpatialMomentum, SpatialInertia
from spatialmath.spatialvector import SpatialVector, SpatialM6, SpatialF6
from .common import *

REG = Registry('C20')
claim = REG.claim
EXPLANATION = ("C20: SpatialVelocity/Acceleration/Force/Momentum/Inertia operators executed on fully symbolic 6-vectors, masses, "
               "centres of mass and inertia matrices; SE3 premultiplication with the unit-quaternion family.")
BOUNDS = "all real 6-vectors; m, r, I free reals (symmetric I); SE3: F-quat, |t_i|<=1e3; lengths 1 and 2 for multi-valued objects"
TIMEOUT = {'quick': 20, 'thorough': 60}
CLASSES = [SpatialVelocity, SpatialAcceleration, SpatialForce, SpatialMomentum]


def FUNCS():
    return [SpatialVector.__init__, SpatialVector.__add__, SpatialVector.__sub__, SpatialVector.__neg__, SpatialVector.__rmul__,
            SpatialM6.cross, SpatialVelocity.__matmul__, SpatialInertia.__init__, SpatialInertia.__add__,
            SpatialInertia.__mul__, SE3.Ad, base.adjoint]


for _cls in CLASSES:
    def _arith(h, cls=_cls):
        a, b = h.vec('a', 6), h.vec('b', 6)
        A, B = cls(a), cls(b)
        h.is_type('add type', A + B, cls)
        h.eq('add', (A + B).A, a + b)
        h.eq('sub', (A - B).A, a - b)
        h.eq('neg', (-A).A, -a)
        h.is_type('neg type', -A, cls)
        h.true('len', len(A + B) == 1)
    claim(f'arith:{_cls.__name__}')(_arith)

    def _arith2(h, cls=_cls):
        a, b, c, d = h.vec('a', 6), h.vec('b', 6), h.vec('c', 6), h.vec('d', 6)
        A = cls(a); A.append(cls(b))
        B = cls(c); B.append(cls(d))
        S = A + B
        h.true('len', len(S) == 2)
        h.eq('add0', S.data[0], a + c)
        h.eq('add1', S.data[1], b + d)
        D = A - B
        h.eq('sub0', D.data[0], a - c)
        h.eq('sub1', D.data[1], b - d)
        # every unequal-length combination, both operand orders, both operators (2 vs 1, 1 vs 2, 3 vs 2)
        C3 = cls(a); C3.append(cls(b)); C3.append(cls(c))
        for nm, f in (('2 + 1', lambda: A + cls(c)), ('1 + 2', lambda: cls(c) + A), ('2 - 1', lambda: A - cls(c)),
                      ('1 - 2', lambda: cls(c) - A), ('3 + 2', lambda: C3 + A), ('2 - 3', lambda: A - C3), ('3 - 2', lambda: C3 - A)):
            h.raises(f'unequal lengths {nm}', f, ValueError)
    claim(f'arith-multi:{_cls.__name__}')(_arith2)

    for _other in CLASSES:
        if _other is _cls:
            continue

        def _mixed(h, cls=_cls, other=_other):
            a, b = h.vec('a', 6), h.vec('b', 6)
            h.raises('add', lambda: cls(a) + other(b))
            h.raises('sub', lambda: cls(a) - other(b))
        claim(f'mixed:{_cls.__name__}+{_other.__name__}')(_mixed)


def crm_ref(v):
    """[[skew(w), skew(v)], [0, skew(w)]] for a motion vector [v; w]"""
    W, V = np.array(skew_ref(v[3:6]), dtype=object), np.array(skew_ref(v[0:3]), dtype=object)
    Z = np.zeros((3, 3), dtype=int).astype(object)
    return np.block([[W, V], [Z, W]])


@claim('cross-motion')
def _(h):
    v, m = h.vec('v', 6), h.vec('m', 6)
    V = SpatialVelocity(v)
    r = V.cross(SpatialVelocity(m))
    h.is_type('type', r, SpatialAcceleration)
    h.eq('crm(v) m', r.A, matmul(crm_ref(v), m.reshape(6, 1)).ravel())
    r2 = V @ SpatialVelocity(m)
    h.eq('@', r2.A, r.A)


@claim('cross-force')
def _(h):
    v, f, m = h.vec('v', 6), h.vec('f', 6), h.vec('m', 6)
    V = SpatialVelocity(v)
    r = V.cross(SpatialForce(f))
    h.is_type('type', r, SpatialForce)
    crf = -transpose(crm_ref(v))
    h.eq('crf(v) f', r.A, matmul(crf, f.reshape(6, 1)).ravel())
    # duality: (v x* f) . m = - f . (v x m)
    vxm = V.cross(SpatialVelocity(m)).A
    h.eq('duality', dot(r.A, m), -dot(f, vxm))
    rm = V.cross(SpatialMomentum(f))
    h.eq('momentum operand', rm.A, r.A)


@claim('cross-rejects')
def _(h):
    v, a = h.vec('v', 6), h.vec('a', 6)
    h.raises('velocity x acceleration', lambda: SpatialVelocity(v).cross(SpatialAcceleration(a)))
    h.raises('velocity x inertia', lambda: SpatialVelocity(v).cross(SpatialInertia()))


def inertia_ref(m, r, I):
    C = np.array(skew_ref(r), dtype=object)
    Ct = C.T
    top = np.hstack([m * np.eye(3, dtype=int).astype(object), m * Ct])
    bot = np.hstack([m * C, np.asarray(I, dtype=object) + m * matmul(C, Ct)])
    return np.vstack([top, bot])


def sym_inertia(h, name):
    a = [h.real(f'{name}{i}') for i in range(6)]
    return h.arr([[a[0], a[3], a[4]], [a[3], a[1], a[5]], [a[4], a[5], a[2]]])


@claim('inertia-matrix')
def _(h):
    m, r, I = h.real('m', 1e-6, 1e6), h.vec('r', 3), sym_inertia(h, 'I')
    J = SpatialInertia(m, r, I)
    A = J.A
    h.eq('parallel-axis form', A, inertia_ref(m, r, I))
    h.eq('symmetric', A, A.T)
    J0 = SpatialInertia(m, r)
    h.eq('no I', J0.A, inertia_ref(m, r, np.zeros((3, 3), dtype=int)))


@claim('inertia-add')
def _(h):
    m1, r1, I1 = h.real('m1', 1e-6, 1e6), h.vec('r1', 3), sym_inertia(h, 'I1')
    m2, r2, I2 = h.real('m2', 1e-6, 1e6), h.vec('r2', 3), sym_inertia(h, 'I2')
    J1, J2 = SpatialInertia(m1, r1, I1), SpatialInertia(m2, r2, I2)
    S = J1 + J2
    h.is_type('type', S, SpatialInertia)
    h.eq('sum', S.A, inertia_ref(m1, r1, I1) + inertia_ref(m2, r2, I2))


@claim('inertia-add-reuse')
def _(h):
    """an inertia that was an operand of + is unchanged and can be joined with a third body"""
    m1, r1 = h.real('m1', 1e-6, 1e6), h.vec('r1', 3)
    m2, r2 = h.real('m2', 1e-6, 1e6), h.vec('r2', 3)
    m3, r3 = h.real('m3', 1e-6, 1e6), h.vec('r3', 3)
    Z = np.zeros((3, 3), dtype=int)
    J1, J2, J3 = SpatialInertia(m1, r1), SpatialInertia(m2, r2), SpatialInertia(m3, r3)
    A1, A2, A3 = inertia_ref(m1, r1, Z), inertia_ref(m2, r2, Z), inertia_ref(m3, r3, Z)
    S12 = J1 + J2
    h.eq('left operand unchanged', J1.A, A1)
    h.eq('right operand unchanged', J2.A, A2)
    h.eq('J1 + J3 after J1 + J2', (J1 + J3).A, A1 + A3)
    h.eq('(J1 + J2) + J3', (S12 + J3).A, A1 + A2 + A3)
    h.eq('J2 + (J2 + J3)', (J2 + (J2 + J3)).A, 2 * A2 + A3)
    a = h.vec('a', 6)
    h.eq('J1 * a after the sums', (J1 * SpatialAcceleration(a)).A, matmul(A1, a.reshape(6, 1)).ravel())


@claim('inertia-times')
def _(h):
    m, r, I = h.real('m', 1e-6, 1e6), h.vec('r', 3), sym_inertia(h, 'I')
    a = h.vec('a', 6)
    J = SpatialInertia(m, r, I)
    A = inertia_ref(m, r, I)
    F = J * SpatialAcceleration(a)
    h.is_type('I*a type', F, SpatialForce)
    h.eq('I*a', F.A, matmul(A, a.reshape(6, 1)).ravel())
    M = J * SpatialVelocity(a)
    h.is_type('I*v type', M, SpatialMomentum)
    h.eq('I*v', M.A, matmul(A, a.reshape(6, 1)).ravel())
    # (the reversed spellings a * I, v * I of the library's __rmul__ docstring never work - UserList.__mul__ intercepts them -
    # but the property speaks of inertia times acceleration / velocity only; noted in DESIGN 11.4, not claimed)
    h.raises('I*force', lambda: J * SpatialForce(a))
    h.raises('I*momentum', lambda: J * SpatialMomentum(a))
    h.raises('I + vector', lambda: J + SpatialVelocity(a))


@claim('SE3-times-vector', split=True)
def _(h):
    T, R, t = se3_quat(h, 'T', 1e3)
    X = SE3(T, check=False)
    v = h.vec('v', 6)
    SR = matmul(skew_ref(t), R)
    Z = np.zeros((3, 3), dtype=int).astype(object)
    Ad = np.block([[R, SR], [Z, R]])
    for cls in (SpatialVelocity, SpatialAcceleration):
        r = X * cls(v)
        h.is_type(f'{cls.__name__} type', r, cls)
        h.eq(f'{cls.__name__}: Ad m', r.A, matmul(Ad, v.reshape(6, 1)).ravel(), scale=1e3)
    for cls in (SpatialForce, SpatialMomentum):
        r = X * cls(v)
        h.is_type(f'{cls.__name__} type', r, cls)
        h.eq(f'{cls.__name__}: Ad^T f', r.A, matmul(Ad.T, v.reshape(6, 1)).ravel(), scale=1e3)


@claim('constructor-forms')
def _(h):
    v = h.vec('v', 6)
    for cls in CLASSES:
        h.eq(f'{cls.__name__} list', cls(list(v)).A, v)
        h.eq(f'{cls.__name__} default', cls().A, np.zeros(6, dtype=int)) if False else None
        h.raises(f'{cls.__name__} len5', lambda cls=cls: cls(h.arr(list(v[:5]))))
