"""Table of constructor entry points executed with symbolic arguments.  Shared by C01 (validity),
C04 (same rotation in each class), C07 (predicates accept every constructor output)."""
import math
import numpy as np
from spatialmath import base, SO2, SE2, SO3, SE3, UnitQuaternion
from .common import *

ORDERS = ['zyx', 'xyz', 'yxz', 'vehicle', 'arm', 'camera']


def unit_axis_times_length(h, name, lmin=1e-3, lmax=1e6):
    """a vector of symbolic length in [lmin, lmax] and arbitrary direction: v = l*u, |u| = 1"""
    u = h.vec(name + 'u', 3, -1, 1)
    l = h.real(name + 'l', lmin, lmax)
    if h.sym:
        h.unit(u)
        h.sqrt_hint(l)
    else:
        n2 = nsq(u)
        if (n2.val if hasattr(n2, 'val') else float(n2)) < 1e-6:
            from symreal.api import AssumptionFailed
            raise AssumptionFailed()
        u = unitize(u)
    return h.arr([l * u[0], l * u[1], l * u[2]]), u, l


def ang(h, name, unit):
    """angle argument in the requested unit together with its radian atom"""
    a = h.angle(name)
    return (h.deg(a) if unit == 'deg' else a), a


# each entry: name -> (kind, builder(h) -> matrix / quaternion vector)
# kind in {'SO2','SE2','SO3','SE3','UQ'}
CTORS = {}


def ctor(name, kind, tier='quick'):
    def deco(fn):
        CTORS[name] = (kind, fn, tier)
        return fn
    return deco


for _u in ('rad', 'deg'):
    for _ax, _f, _tf, _cm in (('x', base.rotx, base.trotx, 'Rx'), ('y', base.roty, base.troty, 'Ry'), ('z', base.rotz, base.trotz, 'Rz')):
        ctor(f'rot{_ax}-{_u}', 'SO3')(lambda h, f=_f, u=_u: f(ang(h, 'a', u)[0], unit=u))
        ctor(f'trot{_ax}-{_u}', 'SE3')(lambda h, f=_tf, u=_u: f(ang(h, 'a', u)[0], unit=u, t=h.vec('t', 3, -1e6, 1e6)))
        ctor(f'SO3.{_cm}-{_u}', 'SO3')(lambda h, m=_cm, u=_u: getattr(SO3, m)(ang(h, 'a', u)[0], unit=u).A)
        ctor(f'SE3.{_cm}-{_u}', 'SE3')(lambda h, m=_cm, u=_u: getattr(SE3, m)(ang(h, 'a', u)[0], unit=u).A)
        ctor(f'SE3.{_cm}-t-{_u}', 'SE3')(lambda h, m=_cm, u=_u: getattr(SE3, m)(ang(h, 'a', u)[0], unit=u, t=h.vec('t', 3, -1e6, 1e6)).A)
        ctor(f'UQ.{_cm}-{_u}', 'UQ')(lambda h, m=_cm, u=_u: getattr(UnitQuaternion, m)(2 * ang(h, 'a', u)[0], unit=u).vec)
    ctor(f'rot2-{_u}', 'SO2')(lambda h, u=_u: base.rot2(ang(h, 'a', u)[0], unit=u))
    ctor(f'trot2-{_u}', 'SE2')(lambda h, u=_u: base.trot2(ang(h, 'a', u)[0], unit=u, t=h.vec('t', 2, -1e6, 1e6)))
    ctor(f'xyt2tr-{_u}', 'SE2')(lambda h, u=_u: base.xyt2tr([h.real('x', -1e6, 1e6), h.real('y', -1e6, 1e6), ang(h, 'a', u)[0]], unit=u))
    ctor(f'SO2-{_u}', 'SO2')(lambda h, u=_u: SO2(ang(h, 'a', u)[0], unit=u).A)
    ctor(f'SE2-{_u}', 'SE2')(lambda h, u=_u: SE2(h.real('x', -1e6, 1e6), h.real('y', -1e6, 1e6), ang(h, 'a', u)[0], unit=u).A)
    ctor(f'eul2r-{_u}', 'SO3')(lambda h, u=_u: base.eul2r([ang(h, n, u)[0] for n in 'abc'], unit=u))
    ctor(f'eul2r-scalars-{_u}', 'SO3')(lambda h, u=_u: base.eul2r(*[ang(h, n, u)[0] for n in 'abc'], unit=u))
    ctor(f'eul2tr-{_u}', 'SE3')(lambda h, u=_u: base.eul2tr([ang(h, n, u)[0] for n in 'abc'], unit=u))
    ctor(f'SO3.Eul-{_u}', 'SO3')(lambda h, u=_u: SO3.Eul([ang(h, n, u)[0] for n in 'abc'], unit=u).A)
    ctor(f'SE3.Eul-{_u}', 'SE3')(lambda h, u=_u: SE3.Eul([ang(h, n, u)[0] for n in 'abc'], unit=u).A)
    for _o in ORDERS:
        ctor(f'rpy2r-{_o}-{_u}', 'SO3')(lambda h, u=_u, o=_o: base.rpy2r([ang(h, n, u)[0] for n in 'abc'], unit=u, order=o))
        ctor(f'rpy2tr-{_o}-{_u}', 'SE3')(lambda h, u=_u, o=_o: base.rpy2tr(*[ang(h, n, u)[0] for n in 'abc'], unit=u, order=o))
        ctor(f'SO3.RPY-{_o}-{_u}', 'SO3')(lambda h, u=_u, o=_o: SO3.RPY([ang(h, n, u)[0] for n in 'abc'], unit=u, order=o).A)
        ctor(f'SE3.RPY-{_o}-{_u}', 'SE3')(lambda h, u=_u, o=_o: SE3.RPY([ang(h, n, u)[0] for n in 'abc'], unit=u, order=o).A)
    ctor(f'angvec2r-{_u}', 'SO3')(lambda h, u=_u: base.angvec2r(ang(h, 'a', u)[0], unit_axis_times_length(h, 'v')[0], unit=u))
    ctor(f'angvec2tr-{_u}', 'SE3')(lambda h, u=_u: base.angvec2tr(ang(h, 'a', u)[0], unit_axis_times_length(h, 'v')[0], unit=u))
    ctor(f'SO3.AngVec-{_u}', 'SO3')(lambda h, u=_u: SO3.AngVec(ang(h, 'a', u)[0], unit_axis_times_length(h, 'v')[0], unit=u).A)
    ctor(f'SE3.AngVec-{_u}', 'SE3')(lambda h, u=_u: SE3.AngVec(ang(h, 'a', u)[0], unit_axis_times_length(h, 'v')[0], unit=u).A)
    ctor(f'UQ.AngVec-{_u}', 'UQ')(lambda h, u=_u: UnitQuaternion.AngVec(2 * ang(h, 'a', u)[0], unit_axis_times_length(h, 'v')[0], unit=u).vec)


@ctor('transl', 'SE3')
def _(h):
    return base.transl(h.vec('t', 3, -1e6, 1e6))


@ctor('transl-scalars', 'SE3')
def _(h):
    return base.transl(h.real('x', -1e6, 1e6), h.real('y', -1e6, 1e6), h.real('z', -1e6, 1e6))


@ctor('transl2', 'SE2')
def _(h):
    return base.transl2(h.vec('t', 2, -1e6, 1e6))


@ctor('transl2-scalars', 'SE2')
def _(h):
    return base.transl2(h.real('x', -1e6, 1e6), h.real('y', -1e6, 1e6))


@ctor('SE3(x,y,z)', 'SE3')
def _(h):
    return SE3(h.real('x', -1e6, 1e6), h.real('y', -1e6, 1e6), h.real('z', -1e6, 1e6)).A


@ctor('SE3([x,y,z])', 'SE3')
def _(h):
    return SE3(h.vec('t', 3, -1e6, 1e6)).A


for _n in ('Tx', 'Ty', 'Tz'):
    ctor(f'SE3.{_n}', 'SE3')(lambda h, n=_n: getattr(SE3, n)(h.real('d', -1e6, 1e6)).A)


@ctor('SE2(x,y)', 'SE2')
def _(h):
    return SE2(h.real('x', -1e6, 1e6), h.real('y', -1e6, 1e6)).A


@ctor('q2r', 'SO3')
def _(h):
    return base.q2r(unit_quat(h, 'q'))


@ctor('UQ.R', 'SO3')
def _(h):
    return UnitQuaternion(unit_quat(h, 'q')).R


@ctor('UQ.SO3', 'SO3')
def _(h):
    return UnitQuaternion(unit_quat(h, 'q')).SO3().A


@ctor('UQ.SE3', 'SE3')
def _(h):
    return UnitQuaternion(unit_quat(h, 'q')).SE3().A


@ctor('unit(q)', 'UQ')
def _(h):
    q = h.vec('q', 4, -1e6, 1e6)
    h.assume(nsq(q) >= 1e-12)
    return base.unit(q)


@ctor('UQ(array)-normalises', 'UQ')
def _(h):
    q = h.vec('q', 4, -1e6, 1e6)
    h.assume(nsq(q) >= 1e-12)
    return UnitQuaternion(q).vec


@ctor('UQ(s,v)-normalises', 'UQ')
def _(h):
    q = h.vec('q', 4, -1e6, 1e6)
    h.assume(nsq(q) >= 1e-12)
    return UnitQuaternion(q[0], q[1:4]).vec


@ctor('Quaternion.unit', 'UQ')
def _(h):
    from spatialmath import Quaternion
    q = h.vec('q', 4, -1e6, 1e6)
    h.assume(nsq(q) >= 1e-12)
    return Quaternion(q).unit().vec


@ctor('oa2r', 'SO3')
def _(h):
    """two non-parallel vectors with lengths in [1e-3, 1e6] (angle between them at least ~0.06 rad)"""
    o, a = _oa(h)
    return base.oa2r(o, a)


def _oa(h):
    """two vectors with lengths in [1e-3, 1e6] at an angle with |sin| >= 0.045 (non-parallel)"""
    o, a = h.vec('o', 3, -1e6, 1e6), h.vec('a', 3, -1e6, 1e6)
    no, na = nsq(o), nsq(a)
    h.assume(no >= 1e-6)
    h.assume(na >= 1e-6)
    h.assume(no <= 1e12)
    h.assume(na <= 1e12)
    h.assume(nsq(cross(o, a)) >= 0.002 * no * na)
    return o, a


@ctor('oa2tr', 'SE3')
def _(h):
    return base.oa2tr(*_oa(h))


@ctor('SO3.OA', 'SO3')
def _(h):
    return SO3.OA(*_oa(h)).A


@ctor('SE3.OA', 'SE3')
def _(h):
    return SE3.OA(*_oa(h)).A


@ctor('eulervec-SO3', 'SO3')
def _(h):
    """EulerVec(w): w = theta * u with theta in [1e-3, 2 pi]"""
    w, u, l = _rotvec(h)
    return SO3.EulerVec(w).A


def _rotvec(h, lo=1e-3, hi=6.28):
    u = h.vec('wu', 3, -1, 1)
    th = h.angle('wth', lo, hi)
    if h.sym:
        h.unit(u)
        h.sqrt_hint(th)
    else:
        u = unitize(u)
    return h.arr([th * u[0], th * u[1], th * u[2]]), u, th


@ctor('eulervec-SE3', 'SE3')
def _(h):
    return SE3.EulerVec(_rotvec(h)[0]).A


@ctor('eulervec-UQ', 'UQ')
def _(h):
    u = h.vec('wu', 3, -1, 1)
    hf = h.angle('wh', 5e-4, 3.14)      # half angle atom; w = 2*hf*u
    if h.sym:
        h.unit(u)
        h.sqrt_hint(2 * hf)
    else:
        u = unitize(u)
    return UnitQuaternion.EulerVec(h.arr([2 * hf * u[0], 2 * hf * u[1], 2 * hf * u[2]])).vec


@ctor('rodrigues-vector', 'SO3')
def _(h):
    return base.rodrigues(_rotvec(h)[0])


@ctor('rodrigues-unit-theta', 'SO3')
def _(h):
    u = h.vec('wu', 3, -1, 1)
    if h.sym:
        h.unit(u)
    else:
        u = unitize(u)
    return base.rodrigues(u, h.angle('th'))


@ctor('rodrigues-2d', 'SO2')
def _(h):
    return base.rodrigues([h.angle('th', 1e-3, 6.28)])


@ctor('trexp-so3-vector', 'SO3')
def _(h):
    return base.trexp(_rotvec(h)[0])


@ctor('trexp-so3-matrix', 'SO3')
def _(h):
    return base.trexp(h.arr(skew_ref(_rotvec(h)[0])))


@ctor('SO3.Exp', 'SO3')
def _(h):
    return SO3.Exp(_rotvec(h)[0]).A


@ctor('trexp-se3-vector', 'SE3')
def _(h):
    w, u, th = _rotvec(h)
    v = h.vec('v', 3, -1e3, 1e3)
    return base.trexp(h.arr([v[0], v[1], v[2], w[0], w[1], w[2]]))


@ctor('SE3.Exp', 'SE3')
def _(h):
    w, u, th = _rotvec(h)
    v = h.vec('v', 3, -1e3, 1e3)
    return SE3.Exp(h.arr([v[0], v[1], v[2], w[0], w[1], w[2]])).A


@ctor('trexp-se3-unit-theta', 'SE3')
def _(h):
    u = h.vec('wu', 3, -1, 1)
    if h.sym:
        h.unit(u)
    else:
        u = unitize(u)
    v = h.vec('v', 3, -1e3, 1e3)
    return base.trexp(h.arr([v[0], v[1], v[2], u[0], u[1], u[2]]), h.angle('th'))


@ctor('trexp-se3-pure-translation', 'SE3')
def _(h):
    v = h.vec('v', 3, -1e6, 1e6)
    h.assume(nsq(v) >= 1e-6)
    return base.trexp(h.arr([v[0], v[1], v[2], 0, 0, 0]))


@ctor('trexp2-so2', 'SO2')
def _(h):
    return base.trexp2([h.angle('th', 1e-3, 6.28)])


@ctor('trexp2-se2', 'SE2')
def _(h):
    th = h.angle('th', 1e-3, 6.28)
    v = h.vec('v', 2, -1e3, 1e3)
    return base.trexp2(h.arr([v[0], v[1], th]))


@ctor('SE2.Exp', 'SE2')
def _(h):
    th = h.angle('th', 1e-3, 6.28)
    v = h.vec('v', 2, -1e3, 1e3)
    return SE2.Exp(h.arr([v[0], v[1], th])).A


@ctor('SO2.Exp', 'SO2')
def _(h):
    return SO2.Exp([h.angle('th', 1e-3, 6.28)]).A


@ctor('UQ(Nx4 array)', 'UQ')
def _(h):
    """the N x 4 array form: every stored element is a unit quaternion (first row returned)"""
    q, r = h.vec('q', 4, -1e3, 1e3), h.vec('r', 4, -1e3, 1e3)
    h.assume(nsq(q) >= 1e-6)
    h.assume(nsq(r) >= 1e-6)
    X = UnitQuaternion(h.arr([list(q), list(r)]))
    h.true('two values', len(X) == 2)
    h.true('elements are 4-vectors', all(np.shape(d) == (4,) for d in X.data))
    h.eq('second element unit', nsq(X.data[1]), 1)
    return X.data[0]
