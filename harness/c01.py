"""C01 Closure: every constructed or composed value is a valid group member."""
import numpy as np
from symreal.api import Registry
from spatialmath import base, SO2, SE2, SO3, SE3, UnitQuaternion
from spatialmath.super_pose import SMPose
from .common import *
from .ctors import CTORS
from . import c02

REG = Registry('C01')
claim = REG.claim
EXPLANATION = ("C01: every constructor entry point of the base package and of SO2/SE2/SO3/SE3/UnitQuaternion is executed with "
               "symbolic arguments in every unit/order configuration; group operators are executed on symbolic members; the "
               "result must satisfy R R^T = I, det R = 1, last row [0..0 1], |q| = 1 on every feasible path.")
BOUNDS = ("angles: unbounded angle atoms (sin/cos pair); axis vectors l*u with |u|=1, l in [1e-3,1e6]; translations |t_i|<=1e6; "
          "rotation vectors theta*u with theta in [1e-3, 2pi]; powers |n|<=8; OA pairs with |cos angle|<=0.999")
ASSUMPTIONS = ["Rand: np.random.uniform replaced by arbitrary values in [low, high] (distribution not claimed)"]
TIMEOUT = {'quick': 20, 'thorough': 120}


def FUNCS():
    fs = [base.rotx, base.roty, base.rotz, base.trotx, base.troty, base.trotz, base.rot2, base.trot2, base.xyt2tr, base.transl,
          base.transl2, base.rpy2r, base.rpy2tr, base.eul2r, base.eul2tr, base.angvec2r, base.angvec2tr, base.oa2r, base.oa2tr,
          base.rodrigues, base.trexp, base.trexp2, base.q2r, base.unit, base.trnorm, base.rand, base.unitvec, base.unitvec_norm,
          base.unittwist_norm, base.unittwist2_norm, base.r2t, base.rt2tr,
          SO3.Rx, SO3.Ry, SO3.Rz, SO3.RPY, SO3.Eul, SO3.AngVec, SO3.EulerVec, SO3.OA, SO3.Exp, SO3.Rand, SE3.Rx, SE3.RPY, SE3.Eul,
          SE3.AngVec, SE3.EulerVec, SE3.OA, SE3.Exp, SE3.Tx, SE3.Rand, SO2.__init__, SE2.__init__, SE3.__init__,
          UnitQuaternion.__init__, UnitQuaternion.Rx, UnitQuaternion.AngVec, UnitQuaternion.EulerVec, UnitQuaternion.Rand,
          SMPose.__mul__, SMPose.__truediv__, SMPose.__pow__, SMPose.prod, SO3.inv, SE3.inv, SO2.inv, SE2.inv]
    return fs


def check_kind(h, kind, M):
    if kind in ('SO2', 'SO3'):
        n = int(kind[2])
        h.true('shape', np.shape(M) == (n, n))
        assert_SO(h, 'R', M)
    elif kind in ('SE2', 'SE3'):
        n = int(kind[2])
        h.true('shape', np.shape(M) == (n + 1, n + 1))
        assert_SE(h, 'T', M)
    else:
        h.true('shape', np.shape(M) == (4,))
        assert_unitq(h, 'q', M)


for _name, (_kind, _fn, _tier) in CTORS.items():
    claim('ctor:' + _name, tier=_tier, split=('oa' in _name.lower()))(lambda h, kind=_kind, fn=_fn: check_kind(h, kind, fn(h)))


# ---- random constructors: arbitrary draws
@claim('rand', sym_random=True)
def _(h):
    check_kind(h, 'UQ', base.rand())


@claim('SO3.Rand', sym_random=True)
def _(h):
    check_kind(h, 'SO3', SO3.Rand().A)


@claim('UQ.Rand', sym_random=True)
def _(h):
    check_kind(h, 'UQ', UnitQuaternion.Rand().vec)


@claim('SE3.Rand', sym_random=True)
def _(h):
    check_kind(h, 'SE3', SE3.Rand().A)


# ---- group operations on valid members return valid members
for _cls in (SO2, SE2, SO3, SE3):
    def _ops(h, cls=_cls):
        X, x = c02.mk(h, cls, 'X'); Y, y = c02.mk(h, cls, 'Y')
        kind = cls.__name__
        for nm, r in (('mul', X * Y), ('div', X / Y), ('inv', X.inv()), ('prod', cls([x, y], check=False).prod())):
            h.is_type(nm + ':type', r, cls)
            h.note(nm)
            if kind in ('SO2', 'SO3'):
                assert_SO(h, nm, r.A)
            else:
                assert_SE(h, nm, r.A)
    claim(f'ops:{_cls.__name__}', split=True)(_ops)

    for _n in (-8, -3, -1, 0, 2, 5, 8):
        def _pw(h, cls=_cls, n=_n):
            X, x = c02.mk(h, cls, 'X')
            r = X ** n
            h.is_type('type', r, cls)
            (assert_SO if cls in (SO2, SO3) else assert_SE)(h, f'pow{n}', r.A)
        claim(f'pow:{_cls.__name__}:{_n}')(_pw)


@claim('ops:UnitQuaternion')
def _(h):
    p, q = unit_quat(h, 'p'), unit_quat(h, 'q')
    P, Q = UnitQuaternion(p), UnitQuaternion(q)
    for nm, r in (('mul', P * Q), ('div', P / Q), ('inv', P.inv()), ('pow3', P ** 3), ('pow-2', P ** -2)):
        h.is_type(nm + ':type', r, UnitQuaternion)
        assert_unitq(h, nm, r.vec)


# ---- multi-valued constructors: every element valid
@claim('multi:SO3.Rx-vector')
def _(h):
    a, b = h.angle('a'), h.angle('b')
    X = SO3.Rx([a, b])
    h.true('len', len(X) == 2)
    for i, M in enumerate(X.data):
        assert_SO(h, f'el{i}', M)


@claim('multi:SE3.Rz-vector')
def _(h):
    a, b = h.angle('a'), h.angle('b')
    X = SE3.Rz([a, b])
    h.true('len', len(X) == 2)
    for i, M in enumerate(X.data):
        assert_SE(h, f'el{i}', M)


@claim('multi:SO2-vector')
def _(h):
    a, b = h.angle('a'), h.angle('b')
    X = SO2([a, b])
    h.true('len', len(X) == 2)
    for i, M in enumerate(X.data):
        assert_SO(h, f'el{i}', M)


@claim('multi:UQ.Rx-vector')
def _(h):
    a, b = h.angle('a'), h.angle('b')
    X = UnitQuaternion.Rx([2 * a, 2 * b])
    h.true('len', len(X) == 2)
    for i, M in enumerate(X.data):
        assert_unitq(h, f'el{i}', M)


# ---- interpolation returns valid members (families shared with C11)
from . import c11 as _c11      # noqa: E402

for _far in (False, True):
    for _sh in (False, True):
        @claim(f'interp:slerp:far={_far}:shortest={_sh}', split=True, values=True)
        def _(h, far=_far, sh=_sh):
            """slerp of two unit quaternions is a unit quaternion; `far` gives q1 with the opposite sign (obtuse angle)"""
            q0, q1, n, t = _c11.pair(h, 1e-3, 1.5)
            s = h.real('s', 0, 1)
            if far and not sh:
                # the long way round passes through angles > pi/2: still a unit quaternion
                pass
            q = base.slerp(q0, -q1 if far else q1, s, shortest=sh)
            assert_unitq(h, 'slerp', q, tol=1e-9)


@claim('interp:trinterp', split=True, values=True)
def _(h):
    R0, h0 = _c11.z_pose(h, 'h0')
    R1, h1 = _c11.z_pose(h, 'h1')
    T0, T1 = hom(h, R0, h.vec('t0_', 3, -1e3, 1e3)), hom(h, R1, h.vec('t1_', 3, -1e3, 1e3))
    s = h.real('s', 0, 1)
    assert_SE(h, 'trinterp', base.trinterp(T0, T1, s), tol=1e-9)


@claim('interp:trinterp2', values=True)
def _(h):
    a0, a1 = h.angle('a0', -3.1, 3.1), h.angle('a1', -3.1, 3.1)
    T0, T1 = hom(h, rot2_ref(h, a0), h.vec('t0_', 2, -1e3, 1e3)), hom(h, rot2_ref(h, a1), h.vec('t1_', 2, -1e3, 1e3))
    s = h.real('s', 0, 1)
    assert_SE(h, 'trinterp2', base.trinterp2(T0, T1, s), tol=1e-9)
