"""C08 Operators are type-safe: only documented operand pairs produce a result."""
import operator
import numpy as np
from symreal.api import Registry
from spatialmath import (base, SO2, SE2, SO3, SE3, Quaternion, UnitQuaternion, Twist2, Twist3, Plucker, SpatialVelocity,
                         SpatialAcceleration, SpatialForce, SpatialMomentum, SpatialInertia, DualQuaternion, UnitDualQuaternion)
from spatialmath.super_pose import SMPose
from .common import *

REG = Registry('C08')
claim = REG.claim
EXPLANATION = ("C08: every ordered pair of the public classes (plus a scalar and arrays) under * / + - ** @ is executed with "
               "symbolic-valued operands; documented cells must return the documented class with the documented value, every "
               "other cell must raise on every feasible path (never None, an identity or an object holding foreign elements).")
BOUNDS = ("operand values: rotation about z by an angle atom, symbolic translations / components; single-valued operands (quick) "
          "and 2-valued left operands (thorough); the table of documented pairs is DOCUMENTED below (transcribed from the docstrings)")
TIMEOUT = {'quick': 8, 'thorough': 60}

OPS = {'*': operator.mul, '/': operator.truediv, '+': operator.add, '-': operator.sub, '**': operator.pow, '@': operator.matmul}


def FUNCS():
    return [SMPose.__mul__, SMPose.__rmul__, SMPose.__truediv__, SMPose.__add__, SMPose.__sub__, SMPose.__pow__, SMPose._op2,
            SMPose.__eq__, SMPose.__ne__, Quaternion.__mul__, Quaternion.__rmul__, Quaternion.__add__, Quaternion.__sub__,
            Quaternion.__truediv__, Quaternion.__pow__, UnitQuaternion.__mul__, UnitQuaternion.__truediv__, Twist3.__mul__,
            Twist3.__rmul__, Twist2.__mul__, Plucker.__mul__, Plucker.__rmul__, SpatialVelocity.__add__, SpatialInertia.__mul__,
            SpatialInertia.__add__, DualQuaternion.__mul__, DualQuaternion.__add__]


# ----------------------------------------------------------------------------- operand factory

def make(h, name, tag):
    """a single-valued instance of class `name` with symbolic content; returns (object, reference value)"""
    if name == 'SO2':
        R, _ = so2(h, tag + 'a'); return SO2(R, check=False), R
    if name == 'SE2':
        T, R, t, _ = se2(h, tag, 1e3); return SE2(T, check=False), T
    if name == 'SO3':
        R = h.arr(rotz_ref(h, h.angle(tag + 'a'))); return SO3(R, check=False), R
    if name == 'SE3':
        R = h.arr(rotz_ref(h, h.angle(tag + 'a'))); T = hom(h, R, h.vec(tag + 't', 3, -1e3, 1e3)); return SE3(T, check=False), T
    if name == 'Quaternion':
        q = h.vec(tag + 'q', 4, -10, 10); return Quaternion(q), q
    if name == 'UnitQuaternion':
        hf = h.angle(tag + 'h'); s, c = h.sincos(hf); q = h.arr([c, 0, 0, s]); return UnitQuaternion(q), q
    if name == 'Twist3':
        # prismatic twists keep exp/log cheap; the class dispatch under test does not look at the value
        v = h.vec(tag + 's', 3, -1, 1); s = h.arr([v[0], v[1], v[2], 0, 0, 0]); return Twist3(s), s
    if name == 'Twist2':
        v = h.vec(tag + 's', 2, -1, 1); s = h.arr([v[0], v[1], 0]); return Twist2(s), s
    if name == 'Plucker':
        v = h.vec(tag + 'p', 6, -10, 10); return Plucker(v), v
    if name in ('SpatialVelocity', 'SpatialAcceleration', 'SpatialForce', 'SpatialMomentum'):
        v = h.vec(tag + 'v', 6, -10, 10); return globals()[name](v), v
    if name == 'SpatialInertia':
        m = h.real(tag + 'm', 0.1, 10); r = h.vec(tag + 'r', 3, -1, 1); J = SpatialInertia(m, r); return J, J.A
    if name == 'DualQuaternion':
        v = h.vec(tag + 'd', 8, -10, 10); return DualQuaternion(v), v
    if name == 'UnitDualQuaternion':
        hf = h.angle(tag + 'h'); s, c = h.sincos(hf); real = UnitQuaternion(h.arr([c, 0, 0, s]))
        t = h.vec(tag + 't', 3, -10, 10); d = UnitDualQuaternion(real, 0.5 * Quaternion.Pure(t) * real); return d, d.vec
    if name == 'scalar':
        x = h.real(tag + 'x', 0.5, 3); return x, x
    if name == 'int':
        return 2, 2
    raise KeyError(name)


CLASSES = ['SO2', 'SE2', 'SO3', 'SE3', 'Quaternion', 'UnitQuaternion', 'Twist2', 'Twist3', 'Plucker', 'SpatialVelocity',
           'SpatialAcceleration', 'SpatialForce', 'SpatialMomentum', 'SpatialInertia', 'DualQuaternion', 'UnitDualQuaternion']
POSES = ['SO2', 'SE2', 'SO3', 'SE3']
SVEC = ['SpatialVelocity', 'SpatialAcceleration', 'SpatialForce', 'SpatialMomentum']

# documented cells: (left, op, right) -> result class name ('ndarray', 'scalar' for plain values)
DOCUMENTED = {}
for P in POSES:
    DOCUMENTED[(P, '*', P)] = P
    DOCUMENTED[(P, '/', P)] = P
    DOCUMENTED[(P, '+', P)] = 'ndarray'
    DOCUMENTED[(P, '-', P)] = 'ndarray'
    DOCUMENTED[(P, '*', 'scalar')] = 'ndarray'
    DOCUMENTED[('scalar', '*', P)] = 'ndarray'
    DOCUMENTED[(P, '/', 'scalar')] = 'ndarray'
    DOCUMENTED[(P, '+', 'scalar')] = 'ndarray'
    DOCUMENTED[(P, '-', 'scalar')] = 'ndarray'
    DOCUMENTED[('scalar', '+', P)] = 'ndarray'
    DOCUMENTED[('scalar', '-', P)] = 'ndarray'
    DOCUMENTED[(P, '**', 'int')] = P
for A in ('Quaternion', 'UnitQuaternion'):
    for B in ('Quaternion', 'UnitQuaternion'):
        DOCUMENTED[(A, '*', B)] = 'UnitQuaternion' if A == B == 'UnitQuaternion' else 'Quaternion'
        DOCUMENTED[(A, '+', B)] = 'Quaternion'
        DOCUMENTED[(A, '-', B)] = 'Quaternion'
    DOCUMENTED[(A, '*', 'scalar')] = 'Quaternion'
    DOCUMENTED[('scalar', '*', A)] = 'Quaternion'
    DOCUMENTED[(A, '+', 'scalar')] = 'Quaternion'
    DOCUMENTED[(A, '-', 'scalar')] = 'Quaternion'
    DOCUMENTED[(A, '**', 'int')] = A
DOCUMENTED[('UnitQuaternion', '/', 'UnitQuaternion')] = 'UnitQuaternion'
DOCUMENTED[('UnitQuaternion', '/', 'scalar')] = 'Quaternion'
DOCUMENTED[('Twist3', '*', 'Twist3')] = 'Twist3'
DOCUMENTED[('Twist3', '*', 'SE3')] = 'SE3'
DOCUMENTED[('Twist3', '*', 'scalar')] = 'Twist3'
DOCUMENTED[('scalar', '*', 'Twist3')] = 'Twist3'
DOCUMENTED[('Twist2', '*', 'Twist2')] = 'Twist2'
DOCUMENTED[('Twist2', '*', 'SE2')] = 'SE2'
DOCUMENTED[('Twist2', '*', 'scalar')] = 'Twist2'
DOCUMENTED[('scalar', '*', 'Twist2')] = 'Twist2'      # Twist2.__mul__ operator table: scalar x Twist2 -> Twist2 (omitted here until session 3: see DESIGN 11.8, F44)
DOCUMENTED[('SE3', '*', 'Plucker')] = 'Plucker'
for _C in ('Twist3', 'Twist2', 'Plucker'):
    DOCUMENTED[(_C, '+', _C)] = _C          # inherited list concatenation of two sequences of the same class (C10)
DOCUMENTED[('Plucker', '*', 'Plucker')] = 'scalar'
for V in SVEC:
    DOCUMENTED[(V, '+', V)] = V
    DOCUMENTED[(V, '-', V)] = V
    DOCUMENTED[('SE3', '*', V)] = V
DOCUMENTED[('SpatialInertia', '+', 'SpatialInertia')] = 'SpatialInertia'
DOCUMENTED[('SpatialInertia', '*', 'SpatialAcceleration')] = 'SpatialForce'
DOCUMENTED[('SpatialInertia', '*', 'SpatialVelocity')] = 'SpatialMomentum'
DOCUMENTED[('SpatialVelocity', '@', 'SpatialVelocity')] = 'SpatialAcceleration'
for F in ('SpatialForce', 'SpatialMomentum'):
    DOCUMENTED[('SpatialVelocity', '@', F)] = 'SpatialForce'
for A in ('DualQuaternion', 'UnitDualQuaternion'):
    for B in ('DualQuaternion', 'UnitDualQuaternion'):
        DOCUMENTED[(A, '*', B)] = 'UnitDualQuaternion' if A == B == 'UnitDualQuaternion' else 'DualQuaternion'
        DOCUMENTED[(A, '+', B)] = 'DualQuaternion'
        DOCUMENTED[(A, '-', B)] = 'DualQuaternion'


def _is(obj, clsname):
    if clsname == 'ndarray':
        return isinstance(obj, np.ndarray)
    if clsname == 'scalar':
        return base.isscalar(obj) or (isinstance(obj, np.ndarray) and obj.ndim == 0)
    return type(obj).__name__ == clsname


def _mustraise(h, L, op, R):
    a, _ = make(h, L, 'L')
    b, _ = make(h, R, 'R')
    h.raises(f'{L} {op} {R} must raise', lambda: OPS[op](a, b))


def _documented(h, L, op, R, res):
    a, _ = make(h, L, 'L')
    b, _ = make(h, R, 'R')
    r = OPS[op](a, b)
    h.true(f'{L} {op} {R} -> {res} (got {type(r).__name__})', _is(r, res))
    h.true('not None', r is not None)


_n = 0
for _L in CLASSES + ['scalar']:
    for _R in CLASSES + ['scalar', 'int']:
        for _op in OPS:
            if _L == 'scalar' and _R in ('scalar', 'int'):
                continue
            if _R == 'int' and _op != '**':
                continue
            if _op == '**' and _R != 'int':
                if _R == 'scalar':
                    continue            # float exponents: covered by the int/float distinction of C15
            key = (_L, _op, _R)
            if key in DOCUMENTED:
                claim(f'doc:{_L} {_op} {_R}')(lambda h, k=key: _documented(h, k[0], k[1], k[2], DOCUMENTED[k]))
            elif _R == 'int' and _L not in POSES + ['Quaternion', 'UnitQuaternion']:
                claim(f'raise:{_L} ** int')(lambda h, L=_L: _mustraise(h, L, '**', 'int'))
            elif _R != 'int':
                # unrelated pairings: 2D with 3D, rotation with rigid motion, matrices with quaternions/twists, ...
                claim(f'raise:{_L} {_op} {_R}', tier='quick')(
                    lambda h, L=_L, op=_op, R=_R: _mustraise(h, L, op, R))
                _n += 1


# ----------------------------------------------------------------------------- documented values

for _P in POSES:
    @claim(f'value:{_P}')
    def _(h, P=_P):
        a, x = make(h, P, 'L')
        b, y = make(h, P, 'R')
        k = h.real('k', 0.5, 3)
        h.eq('mul', (a * b).A, matmul(x, y), scale=1e3)
        h.eq('add', a + b, x + y, scale=1e3)
        h.eq('sub', a - b, x - y, scale=1e3)
        h.eq('scalar *', a * k, x * k, scale=1e3)
        h.eq('* scalar', k * a, x * k, scale=1e3)
        h.eq('/ scalar', a / k, x / k, scale=1e3)

    @claim(f'eq-ne:{_P}')
    def _(h, P=_P):
        a, x = make(h, P, 'L')
        b, y = make(h, P, 'R')
        e = (a == b)
        h.true('== returns a bool', isinstance(e, (bool, np.bool_)) or type(e).__name__ == 'SBool')
        n = (a != b)
        h.true('!= returns a bool', isinstance(n, (bool, np.bool_)) or type(n).__name__ == 'SBool')
        h.true('a == a', a == a)
        h.true('not a != a', not (a != a))


@claim('eq-ne:Quaternion')
def _(h):
    a, x = make(h, 'Quaternion', 'L')
    b, y = make(h, 'Quaternion', 'R')
    h.true('a == a', a == a)
    h.true('not a != a', not (a != a))
    e = (a == b)
    h.true('== returns a bool', isinstance(e, (bool, np.bool_)) or type(e).__name__ == 'SBool')


@claim('eq-ne:Twist3')
def _(h):
    a, x = make(h, 'Twist3', 'L')
    h.true('a == a', a == a)
    h.true('not a != a', not (a != a))


@claim('value:Twist3*SE3')
def _(h):
    tw = Twist3(h.arr([0, 0, 0, 0, 0, 0]) + h.arr([h.real('v0', -1, 1), h.real('v1', -1, 1), h.real('v2', -1, 1), 0, 0, 0]))
    X, x = make(h, 'SE3', 'R')
    r = tw * X
    h.is_type('type', r, SE3)
    E = base.trexp(tw.S)
    h.eq('value = exp(S) T', r.A, matmul(E, x), scale=1e3)


# ----------------------------------------------------------------------------- multi-valued left operands

def make2(h, name, tag):
    a, x = make(h, name, tag + '0')
    b, y = make(h, name, tag + '1')
    cls = type(a)
    if name in POSES:
        return cls([x, y], check=False)
    return cls([x, y])


for _L in POSES + ['UnitQuaternion', 'Quaternion']:
    @claim(f'multi:{_L} * arrays')
    def _(h, L=_L):
        """a 2-valued left operand times a point, a d x N array, a foreign array: a documented array result or an exception,
        never None"""
        A = make2(h, L, 'A')
        d = 2 if L in ('SO2', 'SE2') else 3
        for nm, right in (('point', h.vec('p', d, -5, 5)), ('d x 2 (one column per value)', h.mat('P', d, 2, -5, 5)),
                          ('d x 4', h.mat('Q', d, 4, -5, 5)), ('wrong rows', h.mat('W', d + 2, 3, -5, 5))):
            try:
                r = A * right
            except Exception as e:      # noqa: BLE001
                from symreal.api import _looks_not_encodable
                from symreal.core import NotEncodable
                if isinstance(e, NotEncodable) or _looks_not_encodable(e):
                    raise
                h.true(f'{nm}: rejected', True)
                continue
            h.true(f'{nm}: result is not None', r is not None)
            h.true(f'{nm}: result is an ndarray (or a {L})', isinstance(r, np.ndarray) or type(r).__name__ == L)

    for _R in CLASSES:
        if (_L, '*', _R) in DOCUMENTED or _R == _L:
            continue

        @claim(f'multi-raise:{_L} * {_R}', tier='quick' if _R in ('SO3', 'SE2', 'Twist3', 'Plucker', 'SpatialVelocity', 'Quaternion') else 'thorough')
        def _(h, L=_L, R=_R):
            A = make2(h, L, 'A')
            b, _ = make(h, R, 'R')
            h.raises(f'{L}[2] * {R} must raise', lambda: A * b)
            h.raises(f'{L}[2] + {R} must raise', lambda: A + b)
