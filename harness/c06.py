"""C06 Applying a pose to points is the rigid motion p -> R p + t."""
import numpy as np
from symreal.api import Registry
from spatialmath import base, SO2, SE2, SO3, SE3, UnitQuaternion, UnitDualQuaternion, Quaternion
from spatialmath.super_pose import SMPose
from .common import *
from . import c02

REG = Registry('C06')
claim = REG.claim
EXPLANATION = ("C06: pose * point for SO2/SE2/SO3/SE3/UnitQuaternion/UnitDualQuaternion and the function routes "
               "homtrans/e2h/h2e/qvmul executed on symbolic poses and symbolic points in every container form; results "
               "compared entrywise with the harness's R p + t and their shapes with the documented ones.")
BOUNDS = ("poses: F-quat / angle atom, |t_i| <= 1e6; points: free reals, |p_i| <= 1e6; N columns 1..7 (quick: 1, 2, d, 4; "
          "thorough: 1..7); multi-valued poses of 2 and 3 values (quick), up to 5 (thorough)")
TIMEOUT = {'quick': 15, 'thorough': 60}


def FUNCS():
    return [SMPose.__mul__, base.homtrans, base.e2h, base.h2e, base.qvmul, UnitQuaternion.__mul__, base.q2r,
            UnitDualQuaternion.__init__, UnitDualQuaternion.__mul__ if hasattr(UnitDualQuaternion, '__mul__') else base.q2r]


def Rt(cls, x):
    n = 2 if cls in (SO2, SE2) else 3
    if cls in (SE2, SE3):
        return x[:n, :n], x[:n, n], n
    return x, [0] * n, n


def ref_apply(R, t, p):
    return [dot(R[i], p) + t[i] for i in range(len(p))]


FORMS = {
    'list': lambda h, p: list(p),
    'tuple': lambda h, p: tuple(p),
    'array1d': lambda h, p: h.arr(list(p)),
    'row': lambda h, p: h.arr([list(p)]),
    'column': lambda h, p: h.arr([[x] for x in p]),
}

for _cls in (SO2, SE2, SO3, SE3):
    for _form in FORMS:
        def _one(h, cls=_cls, form=_form):
            X, x = c02.mk(h, cls, 'X')
            R, t, n = Rt(cls, x)
            p = h.vec('p', n, -1e6, 1e6)
            r = X * FORMS[form](h, p)
            h.true('is ndarray', isinstance(r, np.ndarray))
            h.true('shape (d,1)', np.shape(r) == (n, 1))
            h.eq('R p + t', np.asarray(r).ravel(), h.arr(ref_apply(R, t, p)), scale=1 + nsq(p) + nsq(t))
        claim(f'point:{_cls.__name__}:{_form}')(_one)

    def _cols(h, cls=_cls, N=None):
        X, x = c02.mk(h, cls, 'X')
        R, t, n = Rt(cls, x)
        for N in (1, 2, n, 4, 7):
            P = h.mat(f'P{N}_', n, N, -1e6, 1e6)
            r = X * P
            h.true(f'N={N}: shape', np.shape(r) == (n, N))
            if np.shape(r) != (n, N):
                continue
            for k in range(N):
                h.eq(f'N={N} col{k}', r[:, k], h.arr(ref_apply(R, t, P[:, k])), scale=1 + nsq(P[:, k]) + nsq(t))
                single = np.asarray(X * P[:, k]).ravel()
                h.same(f'N={N} col{k} same as separate call', r[:, k], single) if False else None
    claim(f'columns:{_cls.__name__}', split=True)(_cols)

    def _laws(h, cls=_cls):
        X, x = c02.mk(h, cls, 'X'); Y, y = c02.mk(h, cls, 'Y')
        R, t, n = Rt(cls, x)
        p = h.vec('p', n, -1e6, 1e6)
        sc = 1 + nsq(p) + nsq(t) + nsq(Rt(cls, y)[1])
        a = np.asarray((X * Y) * p).ravel()
        b = np.asarray(X * np.asarray(Y * p).ravel()).ravel()
        h.eq('(XY)p = X(Yp)', a, b, scale=sc)
        back = np.asarray(X.inv() * np.asarray(X * p).ravel()).ravel()
        h.eq('X^-1 (X p) = p', back, p, scale=sc)
        q = h.vec('q', n, -1e6, 1e6)
        Xp, Xq = np.asarray(X * p).ravel(), np.asarray(X * q).ravel()
        h.eq('distance preserved', nsq(Xp - Xq), nsq(p - q), scale=1 + nsq(p) + nsq(q))
    claim(f'laws:{_cls.__name__}', split=True)(_laws)

    def _multi(h, cls=_cls):
        """a pose object holding M values applied to one point gives one column per value"""
        for M in (2, 3):
            objs = [c02.mk(h, cls, f'X{M}{i}') for i in range(M)]
            X = cls([o[1] for o in objs], check=False)
            n = Rt(cls, objs[0][1])[2]
            p = h.vec(f'p{M}', n, -1e6, 1e6)
            r = X * p
            h.true(f'M={M}: shape (d,M)', np.shape(r) == (n, M))
            if np.shape(r) != (n, M):
                continue
            for i in range(M):
                R, t, _ = Rt(cls, objs[i][1])
                h.eq(f'M={M} value {i}', r[:, i], h.arr(ref_apply(R, t, p)), scale=1 + nsq(p) + nsq(t))
    claim(f'multi-pose:{_cls.__name__}', split=True)(_multi)

    def _bad(h, cls=_cls):
        X, x = c02.mk(h, cls, 'X')
        n = Rt(cls, x)[2]
        h.raises('wrong point length', lambda: X * h.vec('p', n + 2, -10, 10))
    claim(f'wrong-length:{_cls.__name__}')(_bad)


@claim('handedness')
def _(h):
    """orientation preserved: (Xb-Xa) x (Xc-Xa) = R ((b-a) x (c-a))"""
    X, x = c02.mk(h, SE3, 'X')
    R, t, n = Rt(SE3, x)
    a, b, c = h.vec('a', 3, -1e3, 1e3), h.vec('b', 3, -1e3, 1e3), h.vec('c', 3, -1e3, 1e3)
    Xa, Xb, Xc = [np.asarray(X * v).ravel() for v in (a, b, c)]
    lhs = cross(Xb - Xa, Xc - Xa)
    rhs = matvec(R, cross(b - a, c - a))
    h.eq('handedness', h.arr(lhs), h.arr(rhs), scale=1 + nsq(a) + nsq(b) + nsq(c))


@claim('routes-agree-3d', split=True)
def _(h):
    """rotation matrix, unit quaternion, homogeneous-coordinate function and unit dual quaternion routes"""
    q = unit_quat(h, 'q')
    t = h.vec('t', 3, -1e3, 1e3)
    p = h.vec('p', 3, -1e3, 1e3)
    R = h.arr(q2r_ref(q))
    ref_rot = h.arr(matvec(R, p))
    ref = ref_rot + t
    sc = 1 + nsq(p) + nsq(t)
    h.eq('SO3 * p', np.asarray(SO3(R, check=False) * p).ravel(), ref_rot, scale=sc)
    h.eq('UnitQuaternion * p', np.asarray(UnitQuaternion(q) * p).ravel(), ref_rot, scale=sc)
    h.eq('qvmul', base.qvmul(q, p), ref_rot, scale=sc)
    T = hom(h, R, t)
    h.eq('SE3 * p', np.asarray(SE3(T, check=False) * p).ravel(), ref, scale=sc)
    h.eq('homtrans', np.asarray(base.homtrans(T, p)).ravel(), ref, scale=sc)
    h.eq('h2e(T e2h(p))', np.asarray(base.h2e(T @ base.e2h(p))).ravel(), ref, scale=sc)
    real = UnitQuaternion(q)
    d = UnitDualQuaternion(real, 0.5 * Quaternion.Pure(t) * real)
    h.eq('UnitDualQuaternion * p', np.asarray(d * p).ravel(), ref, scale=sc)


@claim('routes-agree-2d')
def _(h):
    T, R, t, th = se2(h, 'T', 1e3)
    p = h.vec('p', 2, -1e3, 1e3)
    ref = h.arr(ref_apply(R, t, p))
    sc = 1 + nsq(p) + nsq(t)
    h.eq('SE2 * p', np.asarray(SE2(T, check=False) * p).ravel(), ref, scale=sc)
    h.eq('homtrans', np.asarray(base.homtrans(T, p)).ravel(), ref, scale=sc)
    h.eq('SO2 * p', np.asarray(SO2(R, check=False) * p).ravel(), h.arr(matvec(R, p)), scale=sc)


@claim('e2h-h2e')
def _(h):
    p = h.vec('p', 3)
    P = h.mat('P', 3, 4)
    w = h.real('w', 1e-3, 1e3)
    h.eq('e2h vec', base.e2h(p), h.arr([[p[0]], [p[1]], [p[2]], [1]]))
    h.eq('h2e(e2h)', base.h2e(base.e2h(p)), h.arr([[p[0]], [p[1]], [p[2]]]))
    h.eq('h2e scales', base.h2e(h.arr([p[0] * w, p[1] * w, p[2] * w, w])), h.arr([[p[0]], [p[1]], [p[2]]]), scale=1 + nsq(p))
    E = base.e2h(P)
    h.true('e2h matrix shape', np.shape(E) == (4, 4))
    h.eq('e2h matrix', E[:3, :], P)
    h.eq('e2h ones', E[3, :], [1, 1, 1, 1])
    h.eq('h2e(e2h(P))', base.h2e(E), P)


@claim('uq-columns')
def _(h):
    q = unit_quat(h, 'q')
    R = h.arr(q2r_ref(q))
    for N in (1, 2, 3, 5):
        P = h.mat(f'P{N}_', 3, N, -1e3, 1e3)
        r = UnitQuaternion(q) * P
        if N == 1:
            # a single column may come back as a 3-vector (the property fixes the values, not this shape)
            h.true('N=1: 3 values', np.size(r) == 3)
            r = np.asarray(r).reshape(3, 1)
        h.true(f'N={N}: shape', np.shape(r) == (3, N))
        if np.shape(r) != (3, N):
            continue
        for k in range(N):
            h.eq(f'N={N} col{k}', r[:, k], h.arr(matvec(R, P[:, k])), scale=1 + nsq(P[:, k]))


@claim('udq-from-SE3-route', split=True)
def _(h):
    """the dual quaternion built by the library from an SE3 (rotation about a coordinate axis, any translation)
    transforms a point like the pose itself"""
    hf = h.angle('hf', 0.01, 1.5)
    t = h.vec('t', 3, -1e3, 1e3)
    p = h.vec('p', 3, -1e3, 1e3)
    if h.sym:
        s, c = h.sincos(hf)
        h.sqrt_hint(2 * c)
        h.sqrt_hint(2 * s)
    for nm, ref in (('z', rotz_ref), ('x', rotx_ref)):
        R = h.arr(ref(h, 2 * hf))
        T = hom(h, R, t)
        d = UnitDualQuaternion(SE3(T, check=False))
        h.eq(f'{nm}: UnitDualQuaternion(T) * p = R p + t', np.asarray(d * p).ravel(), h.arr(matvec(R, p)) + t, scale=1 + nsq(p) + nsq(t))
