"""C07 Invalid values are rejected: objects never hold non-members."""
import math
import numpy as np
from symreal.api import Registry
from spatialmath import base, SO2, SE2, SO3, SE3, UnitQuaternion, Twist3, Twist2
from .common import *
from .ctors import CTORS

REG = Registry('C07')
claim = REG.claim
EXPLANATION = ("C07: membership predicates executed on arbitrary real matrices/vectors (accept => within 1e-6 of the group, "
               "reflections rejected; far => reject; valid => accept) and class constructors executed on symbolic invalid "
               "arrays in every container form (raise, or hold only valid elements; never a None element).")
BOUNDS = "matrices/vectors: free reals in [-2,2] (predicates), invalid inputs: orthogonal-distance >= 1e-5 or det < 0 or corrupted last row"
TIMEOUT = {'quick': 10, 'thorough': 60}
TOL2 = 1e-12        # (1e-6)^2


def FUNCS():
    return [base.isR, base.isrot, base.isrot2, base.ishom, base.ishom2, base.isskew, base.isskewa, base.iseye, base.isunit,
            base.isunitvec, base.iszerovec, base.iszero, base.isunittwist, base.isunittwist2, SO3.__init__, SE3.__init__,
            SO2.__init__, SE2.__init__, SO3.isvalid, SE3.isvalid, SO2.isvalid, SE2.isvalid, Twist3.isvalid, Twist3._import,
            Twist2.isvalid]


def det3(M):
    return (M[0, 0] * (M[1, 1] * M[2, 2] - M[1, 2] * M[2, 1]) - M[0, 1] * (M[1, 0] * M[2, 2] - M[1, 2] * M[2, 0])
            + M[0, 2] * (M[1, 0] * M[2, 1] - M[1, 1] * M[2, 0]))


def orth_residual(M):
    n = M.shape[0]
    return nsq(matmul(M, transpose(M)) - np.eye(n, dtype=int))


# ----------------------------------------------------------------------------- predicates: accept => close

@claim('isrot-accept-implies-member', split=True)
def _(h):
    M = h.mat('M', 3, 3, -2, 2)
    if base.isrot(M, check=True):
        h.true('orthonormal to 1e-6', orth_residual(M) <= TOL2)
        h.true('det > 0 (no reflection)', det3(M) > 0)
    if base.isR(M):
        h.true('isR: det > 0', det3(M) > 0)


@claim('isrot2-accept-implies-member')
def _(h):
    M = h.mat('M', 2, 2, -2, 2)
    if base.isrot2(M, check=True):
        h.true('orthonormal to 1e-6', orth_residual(M) <= TOL2)
        h.true('det > 0 (no reflection)', M[0, 0] * M[1, 1] - M[0, 1] * M[1, 0] > 0)


@claim('ishom-accept-implies-member', split=True)
def _(h):
    T = h.mat('T', 4, 4, -2, 2)
    if base.ishom(T, check=True):
        R = T[:3, :3]
        h.true('orthonormal to 1e-6', orth_residual(R) <= TOL2)
        h.true('det > 0', det3(R) > 0)
        h.eq('last row', T[3, :], [0, 0, 0, 1], exact_only=True)


@claim('ishom2-accept-implies-member')
def _(h):
    T = h.mat('T', 3, 3, -2, 2)
    if base.ishom2(T, check=True):
        R = T[:2, :2]
        h.true('orthonormal to 1e-6', orth_residual(R) <= TOL2)
        h.true('det > 0', R[0, 0] * R[1, 1] - R[0, 1] * R[1, 0] > 0)
        h.eq('last row', T[2, :], [0, 0, 1], exact_only=True)


@claim('shape-only-without-check')
def _(h):
    M = h.mat('M', 3, 3, -2, 2)
    h.true('isrot check=False accepts any 3x3', base.isrot(M))
    h.true('ishom rejects 3x3', not base.ishom(M))
    h.true('isrot2 rejects 3x3', not base.isrot2(M))
    h.true('ishom2 accepts any 3x3 without check', base.ishom2(M))
    h.true('isrot rejects list', not base.isrot([[1, 0, 0], [0, 1, 0], [0, 0, 1]]))


@claim('isskew-definition')
def _(h):
    S = h.mat('S', 3, 3, -2, 2)
    r = nsq(S + S.T)
    if base.isskew(S):
        h.true('accept => ||S+S^T|| <= 1e-6', r <= TOL2)
    else:
        h.true('reject => not exactly skew', r > 0)
    K = h.arr(skew_ref(h.vec('v', 3)))
    h.true('exact skew accepted', base.isskew(K))


@claim('isskewa-definition')
def _(h):
    S = h.mat('S', 4, 4, -2, 2)
    r = nsq(S[:3, :3] + S[:3, :3].T)
    if base.isskewa(S):
        h.true('accept => skew block', r <= TOL2)
        h.eq('accept => zero bottom row', S[3, :], [0, 0, 0, 0], exact_only=True)
    A = base.skewa(h.vec('v', 6))
    h.true('exact se(3) accepted', base.isskewa(A))


@claim('iseye-definition')
def _(h):
    S = h.mat('S', 3, 3, -2, 2)
    r = nsq(S - np.eye(3, dtype=int))
    if base.iseye(S):
        h.true('accept => close to I', r <= TOL2)
    else:
        h.true('reject => not exactly I', r > 0)
    h.true('non-square rejected', not base.iseye(h.mat('N', 2, 3)))


@claim('isunitvec-definition')
def _(h):
    v = h.vec('v', 3, -2, 2)
    n2 = nsq(v)
    if base.isunitvec(v):
        h.true('accept => | |v| - 1 | <= 1e-6', (n2 <= (1 + 1e-6) ** 2) & (n2 >= (1 - 1e-6) ** 2))
    else:
        h.true('reject => not exactly unit', (n2 > 1) | (n2 < 1))


@claim('iszerovec-definition')
def _(h):
    v = h.vec('v', 3, -2, 2)
    n2 = nsq(v)
    if base.iszerovec(v):
        h.true('accept => |v| <= 1e-6', n2 <= TOL2)
    else:
        h.true('reject => not exactly zero', n2 > 0)
    x = h.real('x', -2, 2)
    if base.iszero(x):
        h.true('iszero accept => |x| <= 1e-6', x * x <= TOL2)
    else:
        h.true('iszero reject => x != 0', x * x > 0)


@claim('isunit-quaternion-definition')
def _(h):
    """the quaternion unit-norm predicate agrees with | |q| - 1 | outside a 1e-6 band"""
    q = h.vec('q', 4, -2, 2)
    n2 = nsq(q)
    if base.isunit(q):
        h.true('accept => | |q| - 1 | <= 1e-6', (n2 <= (1 + 1e-6) ** 2) & (n2 >= (1 - 1e-6) ** 2))
    else:
        h.true('reject => not exactly unit', (n2 > 1) | (n2 < 1))


@claim('isunittwist-definition')
def _(h):
    S = h.vec('S', 6, -2, 2)
    w2, v2 = nsq(S[3:6]), nsq(S[0:3])
    unit = lambda n2: (n2 <= (1 + 1e-6) ** 2) & (n2 >= (1 - 1e-6) ** 2)
    if base.isunittwist(S):
        h.true('accept => unit w, or zero w and unit v', unit(w2) | ((w2 <= TOL2) & unit(v2)))
    h.raises('wrong length', lambda: base.isunittwist(h.vec('x', 5)))


@claim('isunittwist2-definition')
def _(h):
    S = h.vec('S', 3, -2, 2)
    w2, v2 = S[2] * S[2], nsq(S[0:2])
    unit = lambda n2: (n2 <= (1 + 1e-6) ** 2) & (n2 >= (1 - 1e-6) ** 2)
    if base.isunittwist2(S):
        h.true('accept => |w| = 1, or zero w and unit v', unit(w2) | ((w2 <= TOL2) & unit(v2)))


# ----------------------------------------------------------------------------- valid => accept

_PRED = {'SO3': lambda M: base.isrot(M, check=True), 'SE3': lambda M: base.ishom(M, check=True),
         'SO2': lambda M: base.isrot2(M, check=True), 'SE2': lambda M: base.ishom2(M, check=True),
         'UQ': lambda q: base.isunitvec(q)}
_QUICK_ACCEPT = ('rotx-rad', 'trotz-deg', 'rpy2r-zyx-rad', 'rpy2tr-xyz-deg', 'eul2r-rad', 'angvec2r-rad', 'q2r', 'rot2-rad',
                 'trot2-rad', 'transl', 'transl2', 'xyt2tr-rad', 'UQ.Rx-rad', 'unit(q)', 'trexp-so3-vector', 'trexp-se3-vector',
                 'oa2r', 'trexp2-se2')

for _name, (_kind, _fn, _tier) in CTORS.items():
    @claim('accepts:' + _name, tier='quick' if _name in _QUICK_ACCEPT else 'thorough')
    def _(h, kind=_kind, fn=_fn):
        M = fn(h)
        h.true('predicate accepts constructor output', _PRED[kind](np.asarray(M)))


# ----------------------------------------------------------------------------- constructors reject invalid arrays

def bad3(h, how):
    """an invalid 3x3: reflection of a valid rotation / scaled / sheared"""
    R, q = rot_quat(h, 'R')
    if how == 'reflection':
        return h.arr(matmul(np.diag([1, 1, -1]).astype(object), R))
    if how == 'scaled':
        k = h.real('k', 1.001, 2)
        return R * k
    e = h.real('e', 1e-3, 1)
    M = R.copy()
    M[0, 1] = M[0, 1] + e
    return M


def holds_only_valid(h, label, obj, dim):
    """post-condition for an object that was constructed: every element is an array of the right shape that is
    orthonormal with det +1 (to 1e-6) -- and never None"""
    for k, M in enumerate(obj.data):
        h.true(f'{label}: element {k} is an ndarray', isinstance(M, np.ndarray))
        if not isinstance(M, np.ndarray):
            continue
        R = M[:dim, :dim]
        h.true(f'{label}: element {k} orthonormal', orth_residual(R) <= TOL2)
        d = det3(R) if dim == 3 else R[0, 0] * R[1, 1] - R[0, 1] * R[1, 0]
        h.true(f'{label}: element {k} det > 0', d > 0)


def reject_or_valid(h, label, make, dim):
    try:
        obj = make()
    except Exception as e:      # noqa: BLE001 - rejection is the documented behaviour
        from symreal.api import _looks_not_encodable
        from symreal.core import NotEncodable
        if isinstance(e, NotEncodable) or _looks_not_encodable(e):
            raise
        h.true(label + ': rejected', True)
        return
    holds_only_valid(h, label, obj, dim)


for _how in ('reflection', 'scaled', 'sheared'):
    @claim(f'SO3-rejects:{_how}', split=True)
    def _(h, how=_how):
        M = bad3(h, how)
        good = np.eye(3)
        reject_or_valid(h, 'bare array', lambda: SO3(M), 3)
        reject_or_valid(h, 'list [M]', lambda: SO3([M]), 3)
        reject_or_valid(h, 'list [valid, M]', lambda: SO3([good, M]), 3)
        reject_or_valid(h, 'tuple (M, valid)', lambda: SO3((M, good)), 3)

    @claim(f'SE3-rejects:{_how}', split=True)
    def _(h, how=_how):
        M = bad3(h, how)
        T = hom(h, M, h.vec('t', 3, -10, 10))
        good = np.eye(4)
        reject_or_valid(h, 'bare array', lambda: SE3(T), 3)
        reject_or_valid(h, 'list [T]', lambda: SE3([T]), 3)
        reject_or_valid(h, 'list [valid, T]', lambda: SE3([good, T]), 3)


@claim('SE3-rejects:last-row', split=True)
def _(h):
    R, q = rot_quat(h, 'R')
    T = hom(h, R, h.vec('t', 3, -10, 10))
    e = h.real('e', 1e-6, 1)
    T[3, 1] = e
    good = np.eye(4)
    for label, make in (('bare array', lambda: SE3(T)), ('list [T]', lambda: SE3([T])), ('list [valid, T]', lambda: SE3([good, T]))):
        try:
            obj = make()
        except Exception:       # noqa: BLE001
            h.true(label + ': rejected', True)
            continue
        for k, M in enumerate(obj.data):
            h.true(f'{label}: element {k} is an ndarray', isinstance(M, np.ndarray))
            if isinstance(M, np.ndarray):
                h.eq(f'{label}: element {k} last row', M[3, :], [0, 0, 0, 1], exact_only=True)


def bad2(h, how):
    R, th = so2(h, 'th')
    if how == 'reflection':
        return h.arr(matmul(np.diag([1, -1]).astype(object), R))
    k = h.real('k', 1.001, 2)
    return R * k


for _how in ('reflection', 'scaled'):
    @claim(f'SO2-SE2-rejects:{_how}', split=True)
    def _(h, how=_how):
        M = bad2(h, how)
        reject_or_valid(h, 'SO2 bare', lambda: SO2(M), 2)
        reject_or_valid(h, 'SO2 list [valid, M]', lambda: SO2([np.eye(2), M]), 2)
        T = hom(h, M, h.vec('t', 2, -10, 10))
        reject_or_valid(h, 'SE2 bare', lambda: SE2(T), 2)
        reject_or_valid(h, 'SE2 list [valid, T]', lambda: SE2([np.eye(3), T]), 2)


@claim('Twist3-rejects-non-algebra-matrix')
def _(h):
    M = h.mat('M', 4, 4, -2, 2)
    h.assume(nsq(M[:3, :3] + M[:3, :3].T) + nsq(M[3, :]) >= 1e-6)
    try:
        tw = Twist3(M)
    except Exception:           # noqa: BLE001
        h.true('rejected', True)
        return
    h.true('a non se(3) matrix must not be accepted', False)


@claim('Twist3-accepts-algebra-matrix')
def _(h):
    s = h.vec('s', 6, -2, 2)
    tw = Twist3(base.skewa(s))
    h.eq('stored as 6-vector', tw.S, s)


@claim('Twist2-rejects-non-algebra-matrix')
def _(h):
    M = h.mat('M', 3, 3, -2, 2)
    h.assume(nsq(M[:2, :2] + M[:2, :2].T) + nsq(M[2, :]) >= 1e-6)
    try:
        tw = Twist2(M)
    except Exception:           # noqa: BLE001
        h.true('rejected', True)
        return
    h.true('a non se(2) matrix must not be accepted', False)


@claim('check-false-skips-validation')
def _(h):
    M = h.mat('M', 3, 3, -2, 2)
    X = SO3(M, check=False)
    h.same('stored as given', X.A, M)


# ----------------------------------------------------------------------------- UnitQuaternion built from a 3x3 array

for _how in ('reflection', 'scaled', 'sheared'):
    @claim(f'UnitQuaternion-rejects:{_how}', split=True)
    def _(h, how=_how):
        """UnitQuaternion(M) for a 3x3 array that is not a rotation: rejected with checking on (the default), as a bare array
        and inside the containers the constructor accepts; never an object holding a quaternion of a non-rotation"""
        M = bad3(h, how)
        h.raises('bare 3x3 array', lambda: UnitQuaternion(M))
        h.raises('check=True explicitly', lambda: UnitQuaternion(M, check=True))
