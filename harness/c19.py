"""C19 Pluecker lines: incidence, projection and rigid transformation are consistent."""
import numpy as np
from symreal.api import Registry
from spatialmath import base, SE3, Plucker, Plane
from .common import *

REG = Registry('C19')
claim = REG.claim
EXPLANATION = ("C19: Plucker constructors (PQ, PointDir, Planes), pp/ppd/point/contains/closest/==/|/^/commonperp/distance/"
               "intersect_plane, SE3*Plucker and Plane.PN/P3/contains executed on free real defining data; incidence and "
               "orthogonality are polynomial/rational obligations (harness formulas do not normalise directions, so a factor "
               "|w| error shows up).")
BOUNDS = "points with |coord| <= 1e3, |P-Q|^2 >= 1e-6, directions with 1e-6 <= |d|^2 <= 1e6; SE3: F-quat, |t_i|<=1e3"
TIMEOUT = {'quick': 15, 'thorough': 120}


def FUNCS():
    return [Plucker.PQ, Plucker.PointDir, Plucker.Planes, Plucker.pp.fget, Plucker.ppd.fget, Plucker.point, Plucker.contains,
            Plucker.closest, Plucker.__eq__, Plucker.__ne__, Plucker.isparallel, Plucker.__or__, Plucker.__xor__,
            Plucker.commonperp, Plucker.distance, Plucker.__mul__, Plucker.__rmul__, Plucker.intersect_plane, Plucker.uw.fget,
            Plane.PN, Plane.P3, Plane.contains, Plane.__init__]


def two_points(h):
    P, Q = h.vec('P', 3, -1e3, 1e3), h.vec('Q', 3, -1e3, 1e3)
    h.assume(nsq(P - Q) >= 1e-6)
    return P, Q


def point_dir(h, n='p', d='d'):
    p, dd = h.vec(n, 3, -1e3, 1e3), h.vec(d, 3, -1e3, 1e3)
    h.assume(nsq(dd) >= 1e-6)
    return p, dd


def mag(*vs):
    """magnitude scale of a bilinear residual in the given vectors: sum of squares / 2 (>= |a.b|, |a x b|)"""
    t = 0
    for v in vs:
        t = t + nsq(v)
    return t / 2


def on_defining_line(h, label, y, p, d, scale=None):
    """y lies on the line through p with direction d (harness data only, no Pluecker sign convention involved)"""
    y = np.asarray(y).ravel()
    h.eq(label, h.arr(cross(y - p, d)), [0, 0, 0], scale=mag(y - p, d))


def line_is(h, label, L, p, d, scale=1e6):
    """the library line object L is the line through p along d: its direction is parallel to d and its own
    points (principal point, point(lam)) lie on the defining line"""
    h.eq(label + ': direction parallel', h.arr(cross(L.w, d)), [0, 0, 0], scale=mag(L.w, d))
    on_defining_line(h, label + ': pp on defining line', L.pp, p, d, scale * 1e3)
    on_defining_line(h, label + ': point(2) on defining line', L.point(2), p, d, scale * 1e3)
    h.eq(label + ': pluecker constraint v.w=0', dot(L.v, L.w), 0, scale=mag(L.v, L.w))


@claim('PQ-incidence')
def _(h):
    P, Q = two_points(h)
    L = Plucker.PQ(P, Q)
    h.is_type('type', L, Plucker)
    line_is(h, 'PQ', L, P, P - Q)
    h.true('contains P', L.contains(P))
    h.true('contains Q', L.contains(Q))


@claim('PointDir-incidence')
def _(h):
    p, d = point_dir(h)
    L = Plucker.PointDir(p, d)
    h.eq('w is the direction', L.w, d)
    line_is(h, 'PointDir', L, p, d)
    h.true('contains p', L.contains(p))
    lam = h.real('lam', -1e3, 1e3)
    h.true('contains p + lam d', L.contains(p + lam * d))


@claim('pp-is-closest-to-origin')
def _(h):
    p, d = point_dir(h)
    L = Plucker.PointDir(p, d)
    pp = L.pp
    on_defining_line(h, 'pp on line', pp, p, d, 1e9)
    h.eq('pp orthogonal to direction', dot(pp, d), 0, scale=mag(pp, d))
    ppd = L.ppd
    h.eq('ppd^2 = |pp|^2', ppd * ppd, nsq(pp), scale=nsq(pp))
    h.true('ppd >= 0', ppd >= 0)


@claim('point-lambda')
def _(h):
    p, d = point_dir(h)
    L = Plucker.PointDir(p, d)
    lam = h.real('lam', -1e3, 1e3)
    x = L.point(lam)
    h.true('shape', np.shape(x) == (3, 1))
    x = x.ravel()
    on_defining_line(h, 'point(lam) on line', x, p, d, 1e9)
    x0 = L.point(0).ravel()
    h.eq('point(0) = pp', x0, L.pp, scale=1 + mag(L.pp))
    # parameter is arc length along the unit direction
    h.eq('|point(lam) - pp|^2 = lam^2', nsq(x - L.pp), lam * lam, scale=1 + lam * lam)


@claim('closest')
def _(h):
    p, d = point_dir(h)
    L = Plucker.PointDir(p, d)
    x = h.vec('x', 3, -1e3, 1e3)
    c = L.closest(x)
    cp = np.asarray(c.p).ravel()
    on_defining_line(h, 'closest point on line', cp, p, d, 1e9)
    h.eq('x - p orthogonal to line', dot(x - cp, d), 0, scale=mag(x - cp, d))
    h.eq('d^2 = |x-p|^2', c.d * c.d, nsq(x - cp), scale=1 + nsq(x - cp))
    h.true('d >= 0', c.d >= 0)
    h.eq('p = point(lam)', L.point(c.lam).ravel(), cp, scale=1 + mag(cp))


@claim('SE3-times-line', split=True)
def _(h):
    P, Q = two_points(h)
    T, R, t = se3_quat(h, 'T', 1e3)
    L = Plucker.PQ(P, Q)
    L2 = SE3(T, check=False) * L
    h.is_type('type', L2, Plucker)
    P2 = h.arr(matvec(R, P)) + t
    Q2 = h.arr(matvec(R, Q)) + t
    line_is(h, 'T*L', L2, P2, P2 - Q2, 1e9)
    h.eq('direction rotated (orientation kept)', L2.w, h.arr(matvec(R, L.w)), scale=1 + mag(L.w))


@claim('equality-oriented')
def _(h):
    p, d = point_dir(h)
    k = h.real('k', 1e-3, 1e3)
    mu = h.real('mu', -1e3, 1e3)
    L1 = Plucker.PointDir(p, d)
    L2 = Plucker.PointDir(p + mu * d, k * d)      # same oriented line
    L3 = Plucker.PointDir(p, -k * d)              # reversed
    h.true('same line, rescaled direction: ==', L1 == L2)
    h.true('same line: not !=', not (L1 != L2))
    h.true('reversed: !=', L1 != L3)
    h.true('reversed: not ==', not (L1 == L3))


@claim('parallel')
def _(h):
    p, d = point_dir(h)
    q = h.vec('q', 3, -1e3, 1e3)
    k = h.real('k', 1e-3, 1e3)
    L1, L2 = Plucker.PointDir(p, d), Plucker.PointDir(q, k * d)
    h.true('isparallel', L1.isparallel(L2))
    h.true('|', L1 | L2)
    h.true('parallel lines do not ^', not (L1 ^ L2))
    h.true('commonperp of parallel lines is None', L1.commonperp(L2) is None)


@claim('not-parallel')
def _(h):
    p, d = point_dir(h)
    q, e = point_dir(h, 'q', 'e')
    h.assume(nsq(cross(d, e)) >= 1e-6)
    L1, L2 = Plucker.PointDir(p, d), Plucker.PointDir(q, e)
    h.true('not isparallel', not L1.isparallel(L2))
    h.true('not |', not (L1 | L2))


@claim('intersecting-lines')
def _(h):
    """two lines through a common point x with independent directions intersect"""
    x = h.vec('x', 3, -1e3, 1e3)
    d, e = h.vec('d', 3, -10, 10), h.vec('e', 3, -10, 10)
    h.assume(nsq(d) >= 1e-2)
    h.assume(nsq(e) >= 1e-2)
    h.assume(nsq(cross(d, e)) >= 1e-2)
    L1, L2 = Plucker.PointDir(x, d), Plucker.PointDir(x, e)
    h.true('^', L1 ^ L2)
    h.eq('distance 0', L1.distance(L2), 0, scale=1 + mag(x))


@claim('commonperp', split=True)
def _(h):
    p, d = point_dir(h)
    q, e = point_dir(h, 'q', 'e')
    h.assume(nsq(cross(d, e)) >= 1e-6)
    L1, L2 = Plucker.PointDir(p, d), Plucker.PointDir(q, e)
    C = L1.commonperp(L2)
    h.is_type('type', C, Plucker)
    h.eq('perp to l1', dot(C.w, L1.w), 0, scale=mag(C.w, L1.w))
    h.eq('perp to l2', dot(C.w, L2.w), 0, scale=mag(C.w, L2.w))
    h.eq('pluecker constraint', dot(C.v, C.w), 0, scale=mag(C.v, C.w))
    # meets both lines: reciprocal product w_c.v_i + w_i.v_c = 0
    h.eq('meets l1', dot(C.w, L1.v) + dot(L1.w, C.v), 0, scale=mag(C.w, L1.v, L1.w, C.v))
    h.eq('meets l2', dot(C.w, L2.v) + dot(L2.w, C.v), 0, scale=mag(C.w, L2.v, L2.w, C.v))


@claim('distance-skew-lines', split=True)
def _(h):
    p, d = point_dir(h)
    q, e = point_dir(h, 'q', 'e')
    n = cross(d, e)
    h.assume(nsq(n) >= 1e-6)
    L1, L2 = Plucker.PointDir(p, d), Plucker.PointDir(q, e)
    dist = L1.distance(L2)
    # elementary geometry: |(p - q).(d x e)| / |d x e|
    num = dot(p - q, n)
    h.true('distance >= 0', dist >= 0)
    h.eq('distance^2 |d x e|^2 = ((p-q).(d x e))^2', dist * dist * nsq(n), num * num, scale=num * num + nsq(n))


@claim('distance-parallel-lines', split=True)
def _(h):
    p, d = point_dir(h)
    q = h.vec('q', 3, -1e3, 1e3)
    k = h.real('k', 1e-3, 1e3)
    L1, L2 = Plucker.PointDir(p, d), Plucker.PointDir(q, k * d)
    dist = L1.distance(L2)
    # |(p - q) x d| / |d|
    c = cross(p - q, d)
    h.eq('distance^2 |d|^2 = |(p-q) x d|^2', dist * dist * nsq(d), nsq(c), scale=nsq(c) + nsq(d))


@claim('intersect-plane')
def _(h):
    p, d = point_dir(h)
    x0, n = h.vec('x0', 3, -1e3, 1e3), h.vec('n', 3, -10, 10)
    h.assume(nsq(n) >= 1e-2)
    dn = dot(d, n)
    h.assume(dn * dn >= 1e-6 * nsq(d) * nsq(n))
    L = Plucker.PointDir(p, d)
    pl = Plane.PN(x0, n)
    r = L.intersect_plane(pl)
    h.true('intersection exists', r is not None)
    x = np.asarray(r.p).ravel()
    on_defining_line(h, 'on line', x, p, d, 1e9)
    h.eq('on plane (same plane as PN(x0, n))', dot(n, x - x0), 0, scale=mag(n, x - x0))
    h.eq('p = point(lam)', L.point(r.lam).ravel(), x, scale=1 + mag(x))


@claim('plane-PN-contains')
def _(h):
    x0, n = h.vec('x0', 3, -1e3, 1e3), h.vec('n', 3, -10, 10)
    h.assume(nsq(n) >= 1e-2)
    pl = Plane.PN(x0, n)
    h.true('contains its defining point', pl.contains(x0))
    u = h.vec('u', 3, -1e3, 1e3)
    y = x0 + h.arr(cross(n, u))         # any point of the plane
    h.true('contains x0 + n x u', pl.contains(y))
    h.eq('normal', h.arr(cross(pl.n, n)), [0, 0, 0], scale=mag(pl.n, n))


@claim('plane-P3-contains')
def _(h):
    A = h.mat('A', 3, 3, -1e3, 1e3)      # columns are the points
    v1, v2, v3 = A[:, 0], A[:, 1], A[:, 2]
    h.assume(nsq(cross(v2 - v1, v3 - v1)) >= 1e-6)
    pl = Plane.P3(A)
    for k, v in enumerate((v1, v2, v3)):
        h.true(f'contains point {k}', pl.contains(v))


@claim('Planes-line')
def _(h):
    """the line of intersection of two planes through a common point x0 contains x0 and lies in both planes"""
    x0 = h.vec('x0', 3, -1e3, 1e3)
    n1, n2 = h.vec('n', 3, -10, 10), h.vec('m', 3, -10, 10)
    h.assume(nsq(cross(n1, n2)) >= 1e-2)
    p1, p2 = Plane.PN(x0, n1), Plane.PN(x0, n2)
    L = Plucker.Planes(p1, p2)
    h.is_type('type', L, Plucker)
    line_is(h, 'Planes', L, x0, h.arr(cross(n1, n2)), 1e9)
