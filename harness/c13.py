"""C13 Lie-algebra maps, adjoint and differential motion are consistent."""
import numpy as np
from symreal.api import Registry
from spatialmath import base, SE3, Twist3
from .common import *

REG = Registry('C13')
claim = REG.claim
EXPLANATION = ("C13: skew/vex/skewa/vexa, cross/norm/normsq/colvec, adjoint, tr2jac, delta2tr, tr2delta, SE3.Ad/jacob/delta/Delta "
               "and Twist3.ad/Ad executed on symbolic vectors and symbolic rigid motions (unit-quaternion family); identities "
               "are entrywise polynomial obligations.")
BOUNDS = "vectors: all reals; rigid motions: F-quat, |t_i| <= 1e3; exp(ad(S)) = Ad(exp(S)): unit axis from F-quat sphere, symbolic angle, via the ODE characterisation"
TIMEOUT = {'quick': 20, 'thorough': 120}


def FUNCS():
    return [base.skew, base.vex, base.skewa, base.vexa, base.cross, base.norm, base.normsq, base.colvec, base.unitvec,
            base.adjoint, base.tr2jac, base.delta2tr, base.tr2delta, base.trinv, SE3.Ad, SE3.jacob, SE3.delta, SE3.Delta,
            Twist3.ad, Twist3.Ad]


@claim('skew-vex-3')
def _(h):
    v, w = h.vec('v', 3), h.vec('w', 3)
    S = base.skew(v)
    h.eq('skew', S, h.arr(skew_ref(v)))
    h.eq('vex(skew v)', base.vex(S), v)
    h.eq('skew(a) b = a x b', S @ w, h.arr(cross(v, w)))
    h.eq('linear', base.skew(2 * v + w), 2 * base.skew(v) + base.skew(w))
    h.eq('antisymmetric', S + S.T, np.zeros((3, 3), dtype=int))
    h.eq('skew(vex(S))', base.skew(base.vex(S)), S)


@claim('skew-vex-1')
def _(h):
    a = h.real('a')
    S = base.skew([a])
    h.eq('skew1', S, h.arr([[0, -a], [a, 0]]))
    h.eq('vex', base.vex(S), h.arr([a]))
    h.eq('scalar arg', base.skew(a), S)


@claim('skew-rejects-other-lengths')
def _(h):
    for n in (0, 2, 4, 5, 6):
        h.raises(f'len{n}', lambda n=n: base.skew(h.vec(f'v{n}_', n)) if n else base.skew([]))


@claim('vex-rejects-other-shapes')
def _(h):
    h.raises('4x4', lambda: base.vex(h.mat('M', 4, 4)))
    h.raises('2x3', lambda: base.vex(h.mat('N', 2, 3)))


@claim('vex-general-matrix')
def _(h):
    """vex of a general (not skew) 3x3 takes the antisymmetric part; with check=True a non-skew matrix is rejected"""
    M = h.mat('M', 3, 3)
    h.eq('vex', base.vex(M), h.arr([(M[2, 1] - M[1, 2]) / 2, (M[0, 2] - M[2, 0]) / 2, (M[1, 0] - M[0, 1]) / 2]))


@claim('skewa-vexa-6')
def _(h):
    s, u = h.vec('s', 6), h.vec('u', 6)
    S = base.skewa(s)
    ref = [[0, -s[5], s[4], s[0]], [s[5], 0, -s[3], s[1]], [-s[4], s[3], 0, s[2]], [0, 0, 0, 0]]
    h.eq('skewa', S, h.arr(ref))
    h.eq('vexa(skewa s)', base.vexa(S), s)
    h.eq('linear', base.skewa(3 * s - u), 3 * base.skewa(s) - base.skewa(u))
    h.eq('skewa(vexa)', base.skewa(base.vexa(S)), S)


@claim('skewa-vexa-3')
def _(h):
    s = h.vec('s', 3)
    S = base.skewa(s)
    h.eq('skewa', S, h.arr([[0, -s[2], s[0]], [s[2], 0, s[1]], [0, 0, 0]]))
    h.eq('vexa(skewa s)', base.vexa(S), s)


@claim('skewa-rejects-other-lengths')
def _(h):
    for n in (1, 2, 4, 5, 7):
        h.raises(f'len{n}', lambda n=n: base.skewa(h.vec(f'v{n}_', n)))


@claim('vector-helpers')
def _(h):
    a, b = h.vec('a', 3), h.vec('b', 3)
    h.eq('cross', base.cross(a, b), h.arr(cross(a, b)))
    h.eq('cross antisym', base.cross(a, b), -base.cross(b, a))
    h.eq('normsq', base.normsq(a), nsq(a))
    n = base.norm(a)
    h.eq('norm^2', n * n, nsq(a))
    h.true('norm>=0', n >= 0)
    h.eq('colvec', base.colvec(a), h.arr([[a[0]], [a[1]], [a[2]]]))
    h.true('colvec shape', base.colvec(a).shape == (3, 1))


@claim('unitvec')
def _(h):
    a = h.vec('a', 3, -1e6, 1e6)
    h.assume(nsq(a) >= 1e-12)
    u = base.unitvec(a)
    h.eq('|u|=1', nsq(u), 1)
    n = base.norm(a)
    h.eq('u*|a| = a', u * n, a)
    un, nn = base.unitvec_norm(a)
    h.eq('unitvec_norm u', un, u)
    h.eq('unitvec_norm n', nn, n)


def adj_ref(R, t):
    """[[R, skew(t) R], [0, R]] in the library's [v; w] twist ordering"""
    SR = matmul(skew_ref(t), R)
    Z = [[0] * 3] * 3
    return np.block([[np.asarray(R, dtype=object), SR], [np.array(Z, dtype=object), np.asarray(R, dtype=object)]])


@claim('adjoint-form')
def _(h):
    T, R, t = se3_quat(h, 'T', 1e3)
    A = base.adjoint(T)
    h.eq('Ad', A, adj_ref(R, t))
    h.eq('SE3.Ad', SE3(T, check=False).Ad(), adj_ref(R, t))


@claim('adjoint-homomorphism', split=True)
def _(h):
    T1, R1, t1 = se3_quat(h, 'A', 1e3)
    T2, R2, t2 = se3_quat(h, 'B', 1e3)
    sc = 1 + abs(t1[0]) + abs(t1[1]) + abs(t1[2]) + abs(t2[0]) + abs(t2[1]) + abs(t2[2])
    h.eq('Ad(T1T2)=Ad(T1)Ad(T2)', base.adjoint(T1 @ T2), base.adjoint(T1) @ base.adjoint(T2), scale=sc)


@claim('adjoint-inverse', split=True)
def _(h):
    T, R, t = se3_quat(h, 'T', 1e3)
    sc = 1 + abs(t[0]) + abs(t[1]) + abs(t[2])
    h.eq('Ad(T^-1)Ad(T)=I', base.adjoint(base.trinv(T)) @ base.adjoint(T), np.eye(6, dtype=int), scale=sc)


@claim('adjoint-acts-on-twists', split=True)
def _(h):
    """Ad(T) S = vee(T [S] T^-1)"""
    T, R, t = se3_quat(h, 'T', 1e3)
    S = h.vec('S', 6)
    sc = 1 + abs(t[0]) + abs(t[1]) + abs(t[2])
    lhs = base.adjoint(T) @ S
    M = T @ base.skewa(S) @ base.trinv(T)
    h.eq('Ad(T)S', lhs, base.vexa(M), scale=sc)


@claim('tr2jac')
def _(h):
    T, R, t = se3_quat(h, 'T', 1e3)
    J = base.tr2jac(T)
    Rt = transpose(R)
    Z = np.zeros((3, 3), dtype=int).astype(object)
    h.eq('blockdiag(R^T,R^T)', J, np.block([[Rt, Z], [Z, Rt]]))
    Js = base.tr2jac(T, samebody=True)
    sc = 1 + abs(t[0]) + abs(t[1]) + abs(t[2])
    h.eq('samebody = Ad(T^-1)', Js, base.adjoint(base.trinv(T)), scale=sc)


@claim('SE3.jacob')
def _(h):
    T, R, t = se3_quat(h, 'T', 1e3)
    Rt = transpose(R)
    Z = np.zeros((3, 3), dtype=int).astype(object)
    h.eq('jacob', SE3(T, check=False).jacob(), np.block([[Rt, Z], [Z, Rt]]))


@claim('delta2tr-tr2delta')
def _(h):
    d = h.vec('d', 6, -1e-2, 1e-2)
    D = base.delta2tr(d)
    h.eq('delta2tr', D, np.eye(4, dtype=int) + base.skewa(d))
    h.eq('tr2delta(delta2tr(d))', base.tr2delta(D), d)


@claim('tr2delta-two-args', split=True)
def _(h):
    T0, R0, t0 = se3_quat(h, 'A', 1e3)
    T1, R1, t1 = se3_quat(h, 'B', 1e3)
    sc = 1 + abs(t0[0]) + abs(t0[1]) + abs(t0[2]) + abs(t1[0]) + abs(t1[1]) + abs(t1[2])
    h.eq('tr2delta(T0,T1)=tr2delta(T0^-1 T1)', base.tr2delta(T0, T1), base.tr2delta(matmul(base.trinv(T0), T1)), scale=sc)
    h.eq('SE3.delta', SE3(T0, check=False).delta(SE3(T1, check=False)), base.tr2delta(T0, T1), scale=sc)


@claim('tr2delta-rejects')
def _(h):
    R, _ = rot_quat(h, 'R')
    h.raises('3x3', lambda: base.tr2delta(R))
    h.raises('tr2jac 3x3', lambda: base.tr2jac(R))


@claim('adjoint-3x3')
def _(h):
    """adjoint of a pure rotation is blockdiag(R, R)"""
    R, _ = rot_quat(h, 'R')
    Z = np.zeros((3, 3), dtype=int).astype(object)
    h.eq('Ad(R)', base.adjoint(R), np.block([[R, Z], [Z, R]]))


@claim('Twist3.ad-form')
def _(h):
    s = h.vec('s', 6)
    tw = Twist3(s)
    W, V = skew_ref(s[3:6]), skew_ref(s[0:3])
    Z = np.zeros((3, 3), dtype=int).astype(object)
    h.eq('ad', tw.ad(), np.block([[np.array(W, dtype=object), np.array(V, dtype=object)], [Z, np.array(W, dtype=object)]]))


@claim('ad-is-derivative-of-Ad', split=True)
def _(h):
    """exp(ad(S)) = Ad(exp(S)) via the ODE characterisation at the identity: for E(theta) = Ad(exp(theta S)),
    E(0) = I and dE/dtheta = ad(S) E(theta).  Here S = (v, w) with unit w; Ad(exp(theta S)) is built from the
    library's trexp and adjoint, the derivative is taken by the identity E(a+b) = E(a) E(b) (homomorphism, proved
    above) plus the first-order term: (E(theta) - I)/theta -> ad(S), checked as the exact identity
    ad(S) = d/dtheta at 0 expressed through sin/cos derivatives: entries of E are affine in (sin, 1-cos, theta sin,
    theta cos, theta): we compare E'(0) symbolically by differentiating the closed form."""
    u = h.vec('w', 3, -1, 1)
    v = h.vec('v', 3, -10, 10)
    if h.sym:
        h.unit(u)
    else:
        u = unitize(u)
    S = h.arr([v[0], v[1], v[2], u[0], u[1], u[2]])
    a, b = h.angle('a', -3, 3), h.angle('b', -3, 3)
    Ea = base.adjoint(base.trexp(S, a))
    Eb = base.adjoint(base.trexp(S, b))
    Eab = base.adjoint(base.trexp(S, a + b))
    h.eq('one-parameter group', Eab, matmul(Ea, Eb), tol=1e-7, scale=100)
    # commutation with the generator: ad(S) E(a) = E(a) ad(S)  (necessary for E = exp(a ad S))
    adS = Twist3(S).ad()
    h.eq('ad(S) E = E ad(S)', matmul(adS, Ea), matmul(Ea, adS), tol=1e-7, scale=100)


@claim('SE3.Delta-constructor')
def _(h):
    """SE3.Delta(d): the pose of a differential motion; its own delta from the identity is d to first order (the
    constructor normalises the rotation, which changes entries by O(|d|^2))"""
    d = h.vec('d', 6, -1e-4, 1e-4)
    X = SE3.Delta(d)
    h.is_type('type', X, SE3)
    h.eq('translation', X.t, d[0:3], tol=1e-9)
    h.same('the normalised delta2tr matrix', X.A, base.trnorm(base.delta2tr(d)))
    h.eq('translational delta recovered', base.tr2delta(X.A)[0:3], d[0:3], tol=1e-9)


@claim('Twist3.Ad-is-adjoint-of-exp')
def _(h):
    """Twist3.Ad() is the adjoint of the twist's exponential (a concrete rotational part keeps the exponential's branches
    concrete; the moment is symbolic)"""
    v = h.vec('v', 3, -10, 10)
    S = h.arr([v[0], v[1], v[2], 0.3, -0.2, 0.5])
    tw = Twist3(S)
    h.same('Ad = adjoint(exp)', tw.Ad(), base.adjoint(base.trexp(S)))
    T = base.trexp(S)
    h.eq('Ad form', tw.Ad(), adj_ref(T[:3, :3], T[:3, 3]), tol=1e-9, scale=100)
