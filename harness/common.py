"""Input families and reference formulas shared by the harnesses (DESIGN.md section 5).
Everything here is the harness's *own* arithmetic (the oracle side); nothing calls the library."""
import math
from fractions import Fraction
import numpy as np
from symreal.api import H
from symreal.core import Term


def nsq(v):
    t = 0
    for x in np.asarray(v, dtype=object).ravel():
        t = t + x * x
    return t


def unitize(v):
    """v / |v| for float arrays (concrete mode) and for arrays of Terms carrying shadow values (concolic mode)"""
    n2 = nsq(v)
    if isinstance(n2, Term):
        return v / n2.sqrt()
    return v / math.sqrt(float(n2))


def dot(a, b):
    t = 0
    for x, y in zip(a, b):
        t = t + x * y
    return t


def cross(a, b):
    return [a[1] * b[2] - a[2] * b[1], a[2] * b[0] - a[0] * b[2], a[0] * b[1] - a[1] * b[0]]


def matmul(A, B):
    A, B = np.asarray(A, dtype=object), np.asarray(B, dtype=object)
    n, k = A.shape
    m = B.shape[1]
    out = np.empty((n, m), dtype=object)
    for i in range(n):
        for j in range(m):
            t = 0
            for l in range(k):
                t = t + A[i, l] * B[l, j]
            out[i, j] = t
    return out


def matvec(A, v):
    return [dot(row, v) for row in np.asarray(A, dtype=object)]


def transpose(A):
    A = np.asarray(A, dtype=object)
    return A.T.copy()


def skew_ref(v):
    return [[0, -v[2], v[1]], [v[2], 0, -v[0]], [-v[1], v[0], 0]]


def q2r_ref(q):
    s, x, y, z = q
    return [[1 - 2 * (y * y + z * z), 2 * (x * y - s * z), 2 * (x * z + s * y)],
            [2 * (x * y + s * z), 1 - 2 * (x * x + z * z), 2 * (y * z - s * x)],
            [2 * (x * z - s * y), 2 * (y * z + s * x), 1 - 2 * (x * x + y * y)]]


def qmul_ref(p, q):
    a1, b1, c1, d1 = p
    a2, b2, c2, d2 = q
    return [a1 * a2 - b1 * b2 - c1 * c2 - d1 * d2,
            a1 * b2 + b1 * a2 + c1 * d2 - d1 * c2,
            a1 * c2 - b1 * d2 + c1 * a2 + d1 * b2,
            a1 * d2 + b1 * c2 - c1 * b2 + d1 * a2]


def rotx_ref(h, t):
    s, c = h.sincos(t)
    return [[1, 0, 0], [0, c, -s], [0, s, c]]


def roty_ref(h, t):
    s, c = h.sincos(t)
    return [[c, 0, s], [0, 1, 0], [-s, 0, c]]


def rotz_ref(h, t):
    s, c = h.sincos(t)
    return [[c, -s, 0], [s, c, 0], [0, 0, 1]]


def rot2_ref(h, t):
    s, c = h.sincos(t)
    return [[c, -s], [s, c]]


def rodrigues_ref(h, n, t):
    """rotation by angle t about the unit vector n"""
    s, c = h.sincos(t)
    K = np.array(skew_ref(n), dtype=object)
    K2 = matmul(K, K)
    I = np.eye(3, dtype=int).astype(object)
    return I + s * K + (1 - c) * K2


# ----------------------------------------------------------------------------- families

def unit_quat(h, name):
    """F-quat: a unit quaternion (4 free reals, one constraint)"""
    q = h.vec(name, 4, -1, 1)
    if h.sym:
        h.unit(q)
        return q
    n2 = nsq(q)
    if (n2.val if isinstance(n2, Term) else float(n2)) < 1e-12:
        from symreal.api import AssumptionFailed
        raise AssumptionFailed()
    return unitize(q)


def rot_quat(h, name):
    """F-quat rotation matrix (harness formula), surjective onto SO(3)"""
    q = unit_quat(h, name)
    return h.arr(q2r_ref(q)), q


def rot_euler(h, name, lo=None, hi=None):
    """F-euler: R = Rz(a) Ry(b) Rx(c) from three angle atoms; surjective onto SO(3)"""
    a, b, c = h.angle(name + 'a', lo, hi), h.angle(name + 'b', lo, hi), h.angle(name + 'c', lo, hi)
    R = matmul(matmul(rotz_ref(h, a), roty_ref(h, b)), rotx_ref(h, c))
    return h.arr(R), (a, b, c)


def rot_axis(h, name, axis, lo=None, hi=None):
    """F-axisangle: rotation by a symbolic angle about a fixed exact rational unit axis"""
    th = h.angle(name, lo, hi)
    n = [Fraction(x) for x in axis] if h.sym else [float(Fraction(x)) for x in axis]
    if h.sym:
        n = [Term.lift(x) for x in n]
    return h.arr(rodrigues_ref(h, n, th)), th


def hom(h, R, t):
    R = np.asarray(R, dtype=object)
    n = R.shape[0]
    rows = [[R[i, j] for j in range(n)] + [t[i]] for i in range(n)] + [[0] * n + [1]]
    return h.arr(rows)


def se3_quat(h, name, tmax=1e6):
    R, q = rot_quat(h, name + 'q')
    t = h.vec(name + 't', 3, -tmax, tmax)
    return hom(h, R, t), R, t


def se3_euler(h, name, tmax=1e6):
    R, ang = rot_euler(h, name)
    t = h.vec(name + 't', 3, -tmax, tmax)
    return hom(h, R, t), R, t


def so2(h, name, lo=None, hi=None):
    th = h.angle(name, lo, hi)
    return h.arr(rot2_ref(h, th)), th


def se2(h, name, tmax=1e6):
    R, th = so2(h, name + 'th')
    t = h.vec(name + 't', 2, -tmax, tmax)
    return hom(h, R, t), R, t, th


# rational unit vectors (Pythagorean quadruples) used by F-axisangle(D)
AXES = {
    'x': (1, 0, 0), 'y': (0, 1, 0), 'z': (0, 0, 1), '-x': (-1, 0, 0), '-y': (0, -1, 0), '-z': (0, 0, -1),
    '340': (Fraction(3, 5), Fraction(4, 5), 0), '043': (0, Fraction(4, 5), Fraction(3, 5)), '403': (Fraction(4, 5), 0, Fraction(-3, 5)),
    '122': (Fraction(1, 3), Fraction(2, 3), Fraction(2, 3)), '212': (Fraction(2, 3), Fraction(-1, 3), Fraction(2, 3)),
    '221': (Fraction(-2, 3), Fraction(-2, 3), Fraction(1, 3)),
    '236': (Fraction(2, 7), Fraction(3, 7), Fraction(6, 7)), '623': (Fraction(6, 7), Fraction(-2, 7), Fraction(3, 7)),
    '362': (Fraction(-3, 7), Fraction(6, 7), Fraction(2, 7)),
    '148': (Fraction(1, 9), Fraction(4, 9), Fraction(8, 9)), '447': (Fraction(4, 9), Fraction(4, 9), Fraction(-7, 9)),
    '269': (Fraction(2, 11), Fraction(-6, 11), Fraction(9, 11)),
}


# ----------------------------------------------------------------------------- validity assertions (C01)

def assert_SO(h, label, R, tol=1e-9):
    """R R^T = I entrywise and det R = 1"""
    R = np.asarray(R, dtype=object) if h.mode != 'concrete' else np.asarray(R, dtype=float)
    n = R.shape[0]
    RRt = matmul(R, transpose(R)) if h.mode != 'concrete' else R @ R.T
    I = np.eye(n, dtype=int)
    for i in range(n):
        for j in range(i, n):
            h.eq(f'{label}:RRt[{i}{j}]', RRt[i, j], int(I[i, j]), tol=tol)
    if n == 2:
        d = R[0, 0] * R[1, 1] - R[0, 1] * R[1, 0]
    else:
        d = (R[0, 0] * (R[1, 1] * R[2, 2] - R[1, 2] * R[2, 1]) - R[0, 1] * (R[1, 0] * R[2, 2] - R[1, 2] * R[2, 0])
             + R[0, 2] * (R[1, 0] * R[2, 1] - R[1, 1] * R[2, 0]))
    h.eq(f'{label}:det', d, 1, tol=tol)


def assert_SE(h, label, T, tol=1e-9):
    T = np.asarray(T)
    n = T.shape[0] - 1
    h.true(f'{label}:shape', T.shape == (n + 1, n + 1))
    assert_SO(h, label, T[:n, :n], tol)
    for j in range(n):
        h.eq(f'{label}:lastrow[{j}]', T[n, j], 0, tol=0.0 if h.mode == 'concrete' else tol, exact_only=True)
    h.eq(f'{label}:lastrow[{n}]', T[n, n], 1, tol=0.0 if h.mode == 'concrete' else tol, exact_only=True)


def assert_unitq(h, label, q, tol=1e-9):
    h.eq(f'{label}:norm2', nsq(q), 1, tol=tol)
