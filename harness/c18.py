"""C18 Unit twists encode screw geometry."""
import math
import numpy as np
from symreal.api import Registry
from spatialmath import base, SE2, SE3, Twist3, Twist2, Plucker
from .common import *
from .ctors import unit_axis_times_length

REG = Registry('C18')
claim = REG.claim
EXPLANATION = ("C18: Twist3.Revolute/Prismatic and Twist2.Revolute/Prismatic executed on a symbolic axis (l*d, |d|=1, l in "
               "[1e-3,1e6]) and a symbolic axis point; exp(theta), pitch, pole, line, theta, isprismatic, se3, inv, S*k compared "
               "with the screw geometry (axis points fixed, rotation = Rodrigues(d, theta), prismatic = pure translation).")
BOUNDS = "direction: full unit sphere, length in [1e-3,1e6]; axis point |q_i|<=1e3; theta in [-2pi, 2pi] (angle atom); lambda, k free in [-1e3,1e3]"
TIMEOUT = {'quick': 10, 'thorough': 120}


def FUNCS():
    return [Twist3.Revolute, Twist3.Prismatic, Twist3.exp, Twist3.pitch, Twist3.pole, Twist3.line, Twist3.theta, Twist3.se3,
            Twist3.inv, Twist3.__mul__, Twist3.__rmul__, Twist2.__mul__, Twist2.inv, Twist2.Revolute, Twist2.Prismatic, Twist2.exp, Twist2.se2, Twist3.isprismatic.fget,
            base.trexp, base.trexp2, base.unitvec]


def rev(h):
    a, d, l = unit_axis_times_length(h, 'a')
    q = h.vec('q', 3, -1e3, 1e3)
    return Twist3.Revolute(a, q), a, d, q


@claim('revolute-structure')
def _(h):
    S, a, d, q = rev(h)
    h.true('single', len(S) == 1)
    h.eq('w is the unit direction', S.w, d, tol=1e-9)
    h.eq('v = -w x q', S.v, h.arr(cross(q, d)), scale=1 + nsq(q))
    h.eq('pitch 0', S.pitch(), 0, scale=1 + nsq(q))
    h.eq('theta() = 1', S.theta(), 1)
    h.true('not prismatic', not S.isprismatic)
    h.eq('se3 form', S.se3(), base.skewa(S.S))
    h.eq('inv negates', S.inv().S, -S.S)


@claim('revolute-exp', split=True, timeout={'quick': 6, 'thorough': 120})
def _(h):
    S, a, d, q = rev(h)
    th = h.angle('th', -6.29, 6.29)
    lam = h.real('lam', -1e3, 1e3)
    T = S.exp(th)
    h.is_type('type', T, SE3)
    A = T.A
    R = h.arr(rodrigues_ref(h, d, th))
    sc = 1 + nsq(q) + lam * lam
    h.eq('rotation = Rodrigues(d, theta)', A[:3, :3], R, tol=1e-7)
    x = q + lam * d
    h.eq('axis points fixed', h.arr(matvec(A[:3, :3], x)) + A[:3, 3], x, tol=1e-7, scale=sc)
    h.eq('last row', A[3, :], [0, 0, 0, 1])


@claim('revolute-exp-deg')
def _(h):
    S, a, d, q = rev(h)
    th = h.angle('th', -6.29, 6.29)
    h.same('deg = rad', S.exp(h.deg(th), units='deg').A, S.exp(th).A)


@claim('revolute-exp-vector-theta')
def _(h):
    S, a, d, q = rev(h)
    t1, t2 = h.angle('t1', -6.29, 6.29), h.angle('t2', -6.29, 6.29)
    T = S.exp([t1, t2])
    h.true('two values', len(T) == 2)
    h.same('first', T.data[0], S.exp(t1).A)
    h.same('second', T.data[1], S.exp(t2).A)


@claim('revolute-exp-vector-theta-deg')
def _(h):
    """vector theta with units='deg' (concrete axis and point keep the number of paths small; the angles are symbolic)"""
    S = Twist3.Revolute([0, 0, 2], [1, 2, 0])
    t1, t2 = h.angle('t1', 0.1, 6.29), h.angle('t2', -6.29, -0.1)
    T = S.exp([h.deg(t1), h.deg(t2)], units='deg')
    h.true('two values', len(T) == 2)
    h.eq('first', T.data[0], S.exp(t1).A, tol=1e-9, scale=10)
    h.eq('second', T.data[1], S.exp(t2).A, tol=1e-9, scale=10)
    Ta = S.exp(h.arr([h.deg(t1), h.deg(t2)]), units='deg')
    h.eq('array form', Ta.data[1], S.exp(t2).A, tol=1e-9, scale=10)


@claim('planar-exp-options')
def _(h):
    S = Twist2.Revolute([1, 2])          # concrete pole: the options, not the geometry, are the subject here
    t1 = h.angle('t1', -6.29, 6.29)
    h.same('deg scalar', S.exp(h.deg(t1), units='deg').A, S.exp(t1).A)
    T = S.exp([30.0, h.deg(t1)], units='deg')
    h.true('two values', len(T) == 2)
    h.eq('deg vector, concrete element', T.data[0], S.exp(math.pi / 6).A, tol=1e-9)
    h.same('deg vector, symbolic element', T.data[1], S.exp(t1).A)
    T = S.exp([0.5, t1])
    h.same('rad vector', T.data[1], S.exp(t1).A)


@claim('revolute-pole-and-line')
def _(h):
    S, a, d, q = rev(h)
    p = S.pole()
    h.eq('pole on axis', h.arr(cross(p - q, d)), [0, 0, 0], scale=1 + nsq(q))
    L = S.line()
    h.is_type('line type', L, Plucker)
    h.eq('line direction parallel to axis', h.arr(cross(L.w, d)), [0, 0, 0])
    h.eq('line passes through q', h.arr(cross(L.pp - q, d)), [0, 0, 0], scale=1 + nsq(q))


@claim('scalar-multiple', split=True)
def _(h):
    S, a, d, q = rev(h)
    k = h.angle('k', -6.29, 6.29)
    h.eq('S*k', (S * k).S, S.S * k, scale=1 + nsq(q))
    h.eq('exp(S*k) = S.exp(k)', (S * k).exp().A, S.exp(k).A, tol=1e-7, scale=1 + nsq(q))
    h.is_type('type', S * k, Twist3)


@claim('reflected-scalar-multiple')
def _(h):
    """k * S (documented: scalar x Twist -> Twist, element-wise product) for symbolic and integer k, 3D and planar"""
    S, a, d, q = rev(h)
    k = h.angle('k', -6.29, 6.29)
    q2 = h.vec('p', 2, -1e3, 1e3)
    P = Twist2.Revolute(q2)
    for nm, X, cls, sc in (('Twist3', S, Twist3, 1 + nsq(q)), ('Twist2', P, Twist2, 1 + nsq(q2))):
        for knm, kk in (('k', k), ('2', 2)):
            r = kk * X
            h.is_type(f'{nm}: type of {knm}*S', r, cls)
            h.true(f'{nm}: {knm}*S is single-valued', hasattr(r, '__len__') and len(r) == 1)
            if isinstance(r, cls) and len(r) == 1:
                h.eq(f'{nm}: {knm}*S = S*{knm}', r.S, X.S * kk, scale=sc)


@claim('planar-scalar-multiple-and-inverse', split=True)
def _(h):
    q = h.vec('q', 2, -1e3, 1e3)
    S = Twist2.Revolute(q)
    k = h.angle('k', -6.29, 6.29)
    sc = 1 + nsq(q)
    h.is_type('type', S * k, Twist2)
    h.eq('S*k', (S * k).S, S.S * k, scale=sc)
    h.eq('exp(S*k) = S.exp(k)', (S * k).exp().A, S.exp(k).A, tol=1e-7, scale=sc)
    h.eq('inv negates', S.inv().S, -S.S)
    E, Ei = S.exp(k).A, S.inv().exp(k).A
    h.eq('exp(inv) exp = I', matmul(Ei, E), np.eye(3, dtype=int), tol=1e-7, scale=sc)


@claim('inverse-exp', split=True, timeout={'quick': 6, 'thorough': 120})
def _(h):
    S, a, d, q = rev(h)
    th = h.angle('th', -6.29, 6.29)
    E, Ei = S.exp(th).A, S.inv().exp(th).A
    h.eq('exp(inv) exp = I', matmul(Ei, E), np.eye(4, dtype=int), tol=1e-7, scale=1 + nsq(q))


@claim('prismatic')
def _(h):
    a, d, l = unit_axis_times_length(h, 'a')
    S = Twist3.Prismatic(a)
    h.eq('w = 0', S.w, [0, 0, 0])
    h.eq('v unit direction', S.v, d)
    h.true('isprismatic', S.isprismatic)
    h.eq('theta() is the rotation magnitude: 0', S.theta(), 0)
    h.true('not revolute', not S.isrevolute)
    th = h.real('th', -6.29, 6.29)
    h.assume(th * th >= 1e-12)
    T = S.exp(th).A
    h.eq('no rotation', T[:3, :3], np.eye(3, dtype=int), tol=1e-9)
    h.eq('translation theta*d', T[:3, 3], h.arr([th * d[0], th * d[1], th * d[2]]), tol=1e-7, scale=7)
    h.eq('pitch', S.pitch(), 0)


@claim('prismatic-exp-zero')
def _(h):
    a, d, l = unit_axis_times_length(h, 'a')
    S = Twist3.Prismatic(a)
    h.eq('exp(0) = I', S.exp(0).A, np.eye(4, dtype=int))


@claim('planar-revolute', split=True)
def _(h):
    q = h.vec('q', 2, -1e3, 1e3)
    S = Twist2.Revolute(q)
    h.eq('w = 1', S.w, 1)
    h.eq('v = (q_y, -q_x)', S.v, h.arr([q[1], -q[0]]))
    th = h.angle('th', -6.29, 6.29)
    T = S.exp(th)
    h.is_type('type', T, SE2)
    A = T.A
    h.eq('rotation by theta', A[:2, :2], h.arr(rot2_ref(h, th)), tol=1e-7)
    h.eq('pole fixed', h.arr(matvec(A[:2, :2], q)) + A[:2, 2], q, tol=1e-7, scale=1 + nsq(q))
    h.true('not prismatic', not S.isprismatic)
    h.eq('se2 form', S.se2(), base.skewa(S.S))


@claim('planar-prismatic')
def _(h):
    u = h.vec('u', 2, -1, 1)
    l = h.real('l', 1e-3, 1e6)
    if h.sym:
        h.unit(u)
        h.sqrt_hint(l)
    else:
        u = unitize(u)
    S = Twist2.Prismatic(h.arr([l * u[0], l * u[1]]))
    h.eq('w = 0', S.w, 0)
    h.eq('v unit', S.v, u)
    h.true('isprismatic', S.isprismatic)
    th = h.real('th', -6.29, 6.29)
    h.assume(th * th >= 1e-12)
    A = S.exp(th).A
    h.eq('no rotation', A[:2, :2], np.eye(2, dtype=int), tol=1e-9)
    h.eq('translation', A[:2, 2], h.arr([th * u[0], th * u[1]]), tol=1e-7, scale=7)
