"""C12 Quaternion and dual-quaternion arithmetic obeys the Hamilton algebra."""
import numpy as np
from symreal.api import Registry
from .common import unitize
from spatialmath import base, Quaternion, UnitQuaternion, DualQuaternion, UnitDualQuaternion, SE3
from spatialmath.base import quaternions as Q

REG = Registry('C12')
claim = REG.claim

EXPLANATION = ("C12: the library's quaternion kernels (qqmul, conj, qnorm, inner, qpow, matrix, pure, qvmul, vvmul, v2q, "
               "q2v, dot, dotb, unit) and the Quaternion/UnitQuaternion/DualQuaternion operators are executed on fully "
               "symbolic real components; every Hamilton-algebra identity is an entrywise polynomial (or sqrt) obligation.")
BOUNDS = "all real 4-tuples (unbounded); integer powers |n| <= 6; unit quaternions via a^2+b^2+c^2+d^2 = 1; vvmul scalar parts >= 0.1"
ASSUMPTIONS = ["numerical (rounding) half of the property is outside the R-model"]


def FUNCS():
    return [Q.qqmul, Q.conj, Q.qnorm, Q.inner, Q.qpow, Q.matrix, Q.pure, Q.qvmul, Q.vvmul, Q.v2q, Q.q2v, Q.dot, Q.dotb,
            Q.unit, Q.isequal, Quaternion.__mul__, Quaternion.__add__, Quaternion.__sub__, Quaternion.__pow__,
            Quaternion.conj, Quaternion.norm, Quaternion.inner, Quaternion.log, Quaternion.exp, UnitQuaternion.__mul__,
            DualQuaternion.__mul__, DualQuaternion.__add__, DualQuaternion.__sub__, DualQuaternion.conj,
            DualQuaternion.norm, DualQuaternion.matrix, UnitDualQuaternion.__init__]


def qmul_ref(p, q):
    """harness's own Hamilton product (oracle)"""
    a1, b1, c1, d1 = p
    a2, b2, c2, d2 = q
    return [a1 * a2 - b1 * b2 - c1 * c2 - d1 * d2,
            a1 * b2 + b1 * a2 + c1 * d2 - d1 * c2,
            a1 * c2 - b1 * d2 + c1 * a2 + d1 * b2,
            a1 * d2 + b1 * c2 - c1 * b2 + d1 * a2]


def nsq(q):
    return q[0] * q[0] + q[1] * q[1] + q[2] * q[2] + q[3] * q[3]


def _unit_quat(h, name):
    q = h.vec(name, 4, -1, 1)
    if h.sym:
        h.assume(nsq(q) == 1)
        return q
    return unitize(q)


def q2r_ref(q):
    s, x, y, z = q
    return [[1 - 2 * (y * y + z * z), 2 * (x * y - s * z), 2 * (x * z + s * y)],
            [2 * (x * y + s * z), 1 - 2 * (x * x + z * z), 2 * (y * z - s * x)],
            [2 * (x * z - s * y), 2 * (y * z + s * x), 1 - 2 * (x * x + y * y)]]


@claim('qqmul-is-hamilton', funcs=('qqmul',))
def _(h):
    p, q = h.vec('p', 4), h.vec('q', 4)
    h.eq('qqmul', base.qqmul(p, q), h.arr(qmul_ref(p, q)))


@claim('qqmul-assoc')
def _(h):
    p, q, r = h.vec('p', 4), h.vec('q', 4), h.vec('r', 4)
    h.eq('assoc', base.qqmul(base.qqmul(p, q), r), base.qqmul(p, base.qqmul(q, r)))


@claim('qqmul-distrib')
def _(h):
    p, q, r = h.vec('p', 4), h.vec('q', 4), h.vec('r', 4)
    h.eq('left', base.qqmul(p, q + r), base.qqmul(p, q) + base.qqmul(p, r))
    h.eq('right', base.qqmul(q + r, p), base.qqmul(q, p) + base.qqmul(r, p))


@claim('norm-multiplicative')
def _(h):
    p, q = h.vec('p', 4), h.vec('q', 4)
    n = base.qnorm(base.qqmul(p, q))
    h.eq('norm(pq)=norm(p)norm(q)', n, base.qnorm(p) * base.qnorm(q))
    h.eq('norm(pq)^2', n * n, nsq(p) * nsq(q))
    h.true('norm>=0', n >= 0)


@claim('conj-reverses')
def _(h):
    p, q = h.vec('p', 4), h.vec('q', 4)
    h.eq('conj(pq)=conj(q)conj(p)', base.conj(base.qqmul(p, q)), base.qqmul(base.conj(q), base.conj(p)))
    h.eq('q conj(q) = |q|^2', base.qqmul(q, base.conj(q)), h.arr([nsq(q), 0, 0, 0]))
    h.eq('conj conj', base.conj(base.conj(q)), q)


def _powers(h, n):
    q = h.vec('q', 4)
    r = h.arr([1, 0, 0, 0])
    for _ in range(abs(n)):
        r = h.arr(qmul_ref(r, q))
    if n < 0:
        r = h.arr([r[0], -r[1], -r[2], -r[3]])
    h.eq(f'qpow({n})', base.qpow(q, n), r)
    h.eq(f'Quaternion**{n}', (Quaternion(q) ** n).vec, r)


for _n in range(-6, 7):
    claim(f'qpow-{_n}')(lambda h, n=_n: _powers(h, n))


@claim('qpow-rejects-noninteger')
def _(h):
    q = h.vec('q', 4)
    h.raises('float power', lambda: base.qpow(q, 2.0))


@claim('matrix-form')
def _(h):
    p, q = h.vec('p', 4), h.vec('q', 4)
    h.eq('matrix(p) q = p*q', base.matrix(p) @ q, h.arr(qmul_ref(p, q)))
    h.eq('Quaternion.matrix', Quaternion(p).matrix @ q, h.arr(qmul_ref(p, q)))


@claim('inner-is-dot')
def _(h):
    p, q = h.vec('p', 4), h.vec('q', 4)
    d = p[0] * q[0] + p[1] * q[1] + p[2] * q[2] + p[3] * q[3]
    h.eq('inner', base.inner(p, q), d)
    h.eq('Quaternion.inner', Quaternion(p).inner(Quaternion(q)), d)


@claim('pure-qvmul')
def _(h):
    """qvmul(q, v) = vector part of q (0,v) conj(q); for unit q it is the rotation q2r(q) v"""
    q, v = h.vec('q', 4), h.vec('v', 3)
    ref = qmul_ref(q, qmul_ref([0, v[0], v[1], v[2]], [q[0], -q[1], -q[2], -q[3]]))
    h.eq('pure', base.pure(v), h.arr([0, v[0], v[1], v[2]]))
    h.eq('qvmul', base.qvmul(q, v), h.arr(ref[1:]))
    h.assume(nsq(q) == 1) if h.sym else None
    if h.sym:
        h.eq('qvmul = R v', base.qvmul(q, v), base.q2r(q) @ v)


@claim('vvmul-3vector-form')
def _(h):
    """vvmul(q2v(a), q2v(b)) = q2v(a*b) for unit a, b with scalar parts >= 0.1 and product scalar part >= 0"""
    a, b = h.vec('a', 4, -1, 1), h.vec('b', 4, -1, 1)
    if h.sym:
        h.assume(nsq(a) == 1)
        h.assume(nsq(b) == 1)
    else:
        a, b = unitize(a), unitize(b)
    h.assume(a[0] >= 0.1)
    h.assume(b[0] >= 0.1)
    ab = qmul_ref(a, b)
    h.assume(ab[0] >= 0)
    va, vb = base.q2v(a), base.q2v(b)
    h.eq('q2v', va, a[1:4])
    h.eq('v2q(q2v(a))', base.v2q(va), a, tol=1e-6)
    h.eq('vvmul', base.vvmul(va, vb), h.arr(ab[1:]), tol=1e-6)
    h.eq('UnitQuaternion.qvmul', UnitQuaternion.qvmul(va, vb), h.arr(ab[1:]), tol=1e-6)


@claim('q2v-negative-scalar')
def _(h):
    a = h.vec('a', 4, -1, 1)
    h.assume(a[0] < 0)
    h.eq('q2v flips', base.q2v(a), -a[1:4])


@claim('dot-dotb')
def _(h):
    """dot(q, w) = 1/2 (0,w)*q ; dotb(q, w) = 1/2 q*(0,w)"""
    q, w = h.vec('q', 4), h.vec('w', 3)
    W = [0, w[0], w[1], w[2]]
    h.eq('dot', base.dot(q, w), h.arr([x / 2 for x in qmul_ref(W, q)]))
    h.eq('dotb', base.dotb(q, w), h.arr([x / 2 for x in qmul_ref(q, W)]))


@claim('unitquaternion-dot-dotb')
def _(h):
    q, w = _unit_quat(h, 'q'), h.vec('w', 3)
    W = [0, w[0], w[1], w[2]]
    uq = UnitQuaternion(q)
    h.eq('UnitQuaternion.dot', uq.dot(w), h.arr([x / 2 for x in qmul_ref(W, q)]))
    h.eq('UnitQuaternion.dotb', uq.dotb(w), h.arr([x / 2 for x in qmul_ref(q, W)]))


@claim('unit-normalises')
def _(h):
    q = h.vec('q', 4, -1e6, 1e6)
    h.assume(nsq(q) >= 1e-12)
    u = base.unit(q)
    h.eq('|unit(q)|^2 = 1', nsq(u), 1)
    n = base.qnorm(q)
    h.eq('unit(q)*|q| = q', u * n, q)


@claim('class-operators')
def _(h):
    p, q = h.vec('p', 4), h.vec('q', 4)
    P, Qq = Quaternion(p), Quaternion(q)
    h.eq('mul', (P * Qq).vec, h.arr(qmul_ref(p, q)))
    h.eq('add', (P + Qq).vec, p + q)
    h.eq('sub', (P - Qq).vec, p - q)
    h.eq('conj', P.conj().vec, h.arr([p[0], -p[1], -p[2], -p[3]]))
    n = P.norm()
    h.eq('norm^2', n * n, nsq(p))
    h.eq('scalar*', (P * 3).vec, 3 * p)
    h.eq('*scalar', (3 * P).vec, 3 * p)
    h.eq('s', P.s, p[0])
    h.eq('v', P.v, p[1:4])
    h.is_type('mul type', P * Qq, Quaternion)


@claim('unitquaternion-mul')
def _(h):
    p, q = _unit_quat(h, 'p'), _unit_quat(h, 'q')
    P, Qq = UnitQuaternion(p), UnitQuaternion(q)
    r = P * Qq
    h.is_type('type', r, UnitQuaternion)
    # the constructor re-normalises; the value is still the Hamilton product
    h.eq('mul', r.vec, h.arr(qmul_ref(p, q)))
    h.eq('inv', P.inv().vec, h.arr([p[0], -p[1], -p[2], -p[3]]))
    h.eq('P*P.inv', (P * P.inv()).vec, h.arr([1, 0, 0, 0]))
    h.eq('div', (P / Qq).vec, h.arr(qmul_ref(p, [q[0], -q[1], -q[2], -q[3]])))


@claim('dual-algebra')
def _(h):
    a, b = h.vec('a', 8), h.vec('b', 8)
    A, B = DualQuaternion(a), DualQuaternion(b)
    ref_real = qmul_ref(a[:4], b[:4])
    ref_dual = [x + y for x, y in zip(qmul_ref(a[:4], b[4:]), qmul_ref(a[4:], b[:4]))]
    AB = A * B
    h.eq('mul', AB.vec, h.arr(ref_real + ref_dual))
    h.eq('8x8 matrix', A.matrix() @ B.vec, h.arr(ref_real + ref_dual))
    h.eq('add', (A + B).vec, a + b)
    h.eq('sub', (A - B).vec, a - b)
    h.eq('vec', A.vec, a)


@claim('dual-assoc')
def _(h):
    a, b, c = h.vec('a', 8), h.vec('b', 8), h.vec('c', 8)
    A, B, C = DualQuaternion(a), DualQuaternion(b), DualQuaternion(c)
    h.eq('assoc', ((A * B) * C).vec, (A * (B * C)).vec)


@claim('dual-conj-norm')
def _(h):
    """conj conjugates both quaternion parts; norm is the dual number n with n^2 = q q* = |r|^2 + eps 2 r.d"""
    a = h.vec('a', 8)
    A = DualQuaternion(a)
    h.eq('conj', A.conj().vec, h.arr([a[0], -a[1], -a[2], -a[3], a[4], -a[5], -a[6], -a[7]]))
    h.assume(nsq(a[:4]) >= 1e-12)
    n = A.norm()
    h.eq('norm real^2', n[0] * n[0], nsq(a[:4]))
    h.eq('2 n0 n1 = 2 r.d', 2 * n[0] * n[1], 2 * (a[0] * a[4] + a[1] * a[5] + a[2] * a[6] + a[3] * a[7]))




# ----------------------------------------------------------------------------- exp / log

def _polar(h, nlo=1e-3, nhi=1e3):
    """every quaternion with non-zero vector part: q = n (cos phi, sin phi u), n > 0, phi in (0, pi), |u| = 1"""
    n = h.real('n', nlo, nhi)
    phi = h.angle('phi', 1e-6, 3.1415)
    u = h.vec('u', 3, -1, 1)
    if h.sym:
        h.unit(u)
        s, c = h.sincos(phi)
        h.sqrt_hint(n)
        h.sqrt_hint(n * s)
        h.sqrt_hint(phi)
    else:
        u = unitize(u)
    s, c = h.sincos(phi)
    return h.arr([n * c, n * s * u[0], n * s * u[1], n * s * u[2]]), n, phi, u


@claim('exp-log', values=True, split=True, timeout={'quick': 20, 'thorough': 120})
def _(h):
    """exp(log q) = q for every q with non-zero vector part (polar form of q; includes pure quaternions, phi = pi/2)"""
    q, n, phi, u = _polar(h)
    L = Quaternion(q).log()
    h.is_type('log type', L, Quaternion)
    h.eq('log q = (ln n, phi u): vector part', L.v, h.arr([phi * u[0], phi * u[1], phi * u[2]]), tol=1e-6)
    E = L.exp()
    h.eq('exp(log q)', E.vec, q, tol=1e-6, scale=n)


@claim('log-exp', values=True, split=True, timeout={'quick': 20, 'thorough': 120})
def _(h):
    """log(exp q) = q when the vector part has norm in (0, pi): q = (a, phi*u), u a unit vector"""
    a = h.real('a', -5, 5)
    phi = h.angle('phi', 1e-6, 3.14)
    u = h.vec('u', 3, -1, 1)
    if h.sym:
        h.unit(u)
        h.sqrt_hint(phi)
    else:
        u = unitize(u)
    q = h.arr([a, phi * u[0], phi * u[1], phi * u[2]])
    E = Quaternion(q).exp()
    s, c = h.sincos(phi)
    if h.sym:
        ea = E.vec[0] * 0 + 1           # placeholder keeps the claim structure identical in both modes
    L = Quaternion(E.vec).log()
    h.eq('log(exp q)', L.vec, q, tol=1e-6)


# ----------------------------------------------------------------------------- unit dual quaternion of a rigid motion

def _udq(h, q, t, **kw):
    real = UnitQuaternion(s=q[0], v=q[1:4], norm=False)
    dual = 0.5 * Quaternion.Pure(t) * real
    return real, dual


@claim('udq-norm-exact')
def _(h):
    """for every rigid motion (unit quaternion q, translation t): norm of the unit dual quaternion is (1, 0)"""
    q, t = _unit_quat(h, 'q'), h.vec('t', 3, -1e6, 1e6)
    real, dual = _udq(h, q, t)
    d = UnitDualQuaternion(real, dual)
    n = d.norm()
    h.eq('real norm', n[0], 1, tol=1e-6)
    h.eq('dual norm', n[1], 0, tol=1e-6)


@claim('udq-norm-via-SE3-axis-rotations')
def _(h):
    """the SE3 route (through r2q) for rotations about the coordinate axes by any angle, any translation"""
    th = h.angle('th', -3.1, 3.1)
    t = h.vec('t', 3, -1e6, 1e6)
    for nm, f in (('x', base.trotx), ('y', base.troty), ('z', base.trotz)):
        T = SE3(f(2 * th, t=t) if False else f(th, t=t), check=False)
        d = UnitDualQuaternion(T)
        n = d.norm()
        h.eq(f'{nm}: real norm', n[0], 1, tol=1e-6)
        h.eq(f'{nm}: dual norm', n[1], 0, tol=1e-6)


@claim('udq-norm-defined-for-stored-doubles')
def _(h):
    """F-repr: the dual part as a double array holds it (each component with relative error <= 4 eps):
    norm() must still be defined (no exception)"""
    q, t = _unit_quat(h, 'q'), h.vec('t', 3, -1e3, 1e3)
    real, dual = _udq(h, q, t)
    e = h.vec('e', 4, -2.0 ** -50, 2.0 ** -50)
    dv = dual.vec
    dual2 = Quaternion(h.arr([dv[i] * (1 + e[i]) for i in range(4)]))
    d = UnitDualQuaternion(real, dual2)
    n = d.norm()
    h.eq('real norm', n[0], 1, tol=1e-6)
    h.eq('dual norm', n[1], 0, tol=1e-6)


@claim('isequal-double-cover')
def _(h):
    """isequal: q and -q are the same unit quaternion (unitq=True) but different quaternions (unitq=False)"""
    q = h.vec('q', 4, -10, 10)
    h.assume(nsq(q) >= 1e-2)
    h.true('q == q', base.isequal(q, q))
    h.true('q == -q as unit quaternions', base.isequal(q, -q, unitq=True))
    h.true('q != -q as quaternions', not base.isequal(q, -q))
    p = h.vec('p', 4, -10, 10)
    d = nsq(p - q)
    h.assume(d >= 1e-6)
    h.assume(nsq(p + q) >= 1e-6)
    h.true('different values are not equal', not base.isequal(p, q, unitq=True))
