"""C02 Group laws: associativity, identity, inverse, division and integer powers."""
import numpy as np
from symreal.api import Registry
from spatialmath import base, SO2, SE2, SO3, SE3, UnitQuaternion, Twist3, Twist2
from spatialmath.super_pose import SMPose
from .common import *

REG = Registry('C02')
claim = REG.claim
EXPLANATION = ("C02: class operators (* / inv ** prod, default constructor) of SO2/SE2/SO3/SE3/UnitQuaternion/Twist3/Twist2 and "
               "trinv/trinv2 executed on objects built (check=False) from fully symbolic group members; both sides of each "
               "group law compared entrywise.")
BOUNDS = ("SO3/SE3 members: F-quat (unit quaternion, all of SO(3)), translations |t|<=1e6; SO2/SE2: angle atom; exponents -8..8 "
          "enumerated; twists: exp of the composed twist compared with the product of exps, axes from the D grid")
ASSUMPTIONS = ["expression trees of depth 5 are covered by the one-step argument: each operator returns the group operation of "
               "its operands' matrices (this check) and a valid member (C01)"]
TIMEOUT = {'quick': 20, 'thorough': 120}


def FUNCS():
    return [SMPose.__mul__, SMPose.__truediv__, SMPose.__pow__, SMPose.prod, SMPose._op2, SO2.inv, SE2.inv, SO3.inv, SE3.inv,
            base.trinv, base.trinv2, UnitQuaternion.__mul__, UnitQuaternion.__truediv__, UnitQuaternion.inv,
            UnitQuaternion.__eq__, Twist3.__mul__, Twist3.inv, Twist3.exp, Twist2.__mul__, Twist2.exp]


def mk(h, cls, name):
    """an object of class cls holding a fully symbolic member; returns (obj, matrix)"""
    if cls is SO3:
        R, _ = rot_quat(h, name)
        return SO3(R, check=False), R
    if cls is SE3:
        T, R, t = se3_quat(h, name)
        return SE3(T, check=False), T
    if cls is SO2:
        R, _ = so2(h, name)
        return SO2(R, check=False), R
    if cls is SE2:
        T, R, t, _ = se2(h, name)
        return SE2(T, check=False), T
    raise ValueError


def scale_of(cls, *Ms):
    if cls in (SE3, SE2):
        n = Ms[0].shape[0] - 1
        s = 1
        for M in Ms:
            for i in range(n):
                s = s + abs(M[i, n])
        return s
    return 1


for _cls in (SO2, SE2, SO3, SE3):
    def _assoc(h, cls=_cls):
        X, x = mk(h, cls, 'X'); Y, y = mk(h, cls, 'Y'); Z, z = mk(h, cls, 'Z')
        h.eq('assoc', ((X * Y) * Z).A, (X * (Y * Z)).A, scale=scale_of(cls, x, y, z))
        h.eq('mul=matmul', (X * Y).A, matmul(x, y))
        h.is_type('type', X * Y, cls)
    claim(f'{_cls.__name__}-assoc')(_assoc)

    def _ident(h, cls=_cls):
        X, x = mk(h, cls, 'X')
        I = cls()
        n = x.shape[0]
        h.eq('I is eye', I.A, np.eye(n, dtype=int))
        h.eq('I*X', (I * X).A, x)
        h.eq('X*I', (X * I).A, x)
        h.eq('X**0', (X ** 0).A, np.eye(n, dtype=int))
        h.eq('X**1', (X ** 1).A, x)
    claim(f'{_cls.__name__}-identity')(_ident)

    def _inv(h, cls=_cls):
        X, x = mk(h, cls, 'X'); Y, y = mk(h, cls, 'Y')
        n = x.shape[0]
        sc = scale_of(cls, x, y)
        Xi = X.inv()
        h.is_type('type', Xi, cls)
        h.eq('X*X.inv', (X * Xi).A, np.eye(n, dtype=int), scale=sc)
        h.eq('X.inv*X', (Xi * X).A, np.eye(n, dtype=int), scale=sc)
        h.eq('(XY).inv = Y.inv X.inv', (X * Y).inv().A, (Y.inv() * X.inv()).A, scale=sc)
        h.eq('X/Y = X*Y.inv', (X / Y).A, (X * Y.inv()).A, scale=sc)
        h.eq('X/Y = x y^-1', matmul((X / Y).A, y), x, scale=sc)
        h.eq('X**-1', (X ** -1).A, Xi.A, scale=sc)
    claim(f'{_cls.__name__}-inverse', split=True)(_inv)

    for _n in range(-8, 9):
        def _pow(h, cls=_cls, n=_n):
            X, x = mk(h, cls, 'X')
            N = x.shape[0]
            r = np.eye(N, dtype=int).astype(object)
            for _ in range(abs(n)):
                r = matmul(r, x)
            P = X ** n
            h.is_type('type', P, cls)
            if n >= 0:
                h.eq(f'X**{n}', P.A, r)
            else:
                # X**-n is the inverse of X**n
                h.eq(f'X**{n} * X**{-n} = I', matmul(P.A, r), np.eye(N, dtype=int))
        claim(f'{_cls.__name__}-pow{_n}', split=(abs(_n) > 3), tier='quick' if abs(_n) <= 3 or _cls in (SO2, SE2) else 'thorough')(_pow)

    def _prod(h, cls=_cls):
        X, x = mk(h, cls, 'X'); Y, y = mk(h, cls, 'Y'); Z, z = mk(h, cls, 'Z')
        S = cls([x, y, z], check=False)
        h.eq('prod', S.prod().A, matmul(matmul(x, y), z), scale=scale_of(cls, x, y, z))
        h.is_type('type', S.prod(), cls)
    claim(f'{_cls.__name__}-prod')(_prod)


@claim('trinv-is-matrix-inverse')
def _(h):
    T, R, t = se3_quat(h, 'T')
    Ti = base.trinv(T)
    sc = 1 + abs(t[0]) + abs(t[1]) + abs(t[2])
    h.eq('T trinv(T)', matmul(T, Ti), np.eye(4, dtype=int), scale=sc)
    h.eq('trinv(T) T', matmul(Ti, T), np.eye(4, dtype=int), scale=sc)


@claim('trinv2-is-matrix-inverse')
def _(h):
    T, R, t, _ = se2(h, 'T')
    Ti = base.trinv2(T)
    sc = 1 + abs(t[0]) + abs(t[1])
    h.eq('T trinv2(T)', matmul(T, Ti), np.eye(3, dtype=int), scale=sc)
    h.eq('trinv2(T) T', matmul(Ti, T), np.eye(3, dtype=int), scale=sc)


@claim('trinv-rejects-nonmatrix')
def _(h):
    R, _ = rot_quat(h, 'R')
    h.raises('3x3 to trinv', lambda: base.trinv(R))
    h.raises('4x4 to trinv2', lambda: base.trinv2(hom(h, R, [0, 0, 0])))


# ----------------------------------------------------------------------------- unit quaternions (up to sign)

def eq_upto_sign(h, label, a, b):
    """a == b or a == -b as 4-vectors: checked as q2r equality (double cover), which is what 'the same rotation' means"""
    h.eq(label, h.arr(q2r_ref(a)), h.arr(q2r_ref(b)))


@claim('UnitQuaternion-laws', split=True)
def _(h):
    p, q, r = unit_quat(h, 'p'), unit_quat(h, 'q'), unit_quat(h, 'r')
    P, Q, Rr = UnitQuaternion(p), UnitQuaternion(q), UnitQuaternion(r)
    h.eq('assoc', ((P * Q) * Rr).vec, (P * (Q * Rr)).vec)
    I = UnitQuaternion()
    h.eq('identity', I.vec, [1, 0, 0, 0])
    h.eq('I*P', (I * P).vec, p)
    h.eq('P*I', (P * I).vec, p)
    h.eq('P*P.inv', (P * P.inv()).vec, [1, 0, 0, 0])
    h.eq('P.inv*P', (P.inv() * P).vec, [1, 0, 0, 0])
    h.eq('(PQ).inv', (P * Q).inv().vec, (Q.inv() * P.inv()).vec)
    h.eq('P/Q', (P / Q).vec, (P * Q.inv()).vec)
    h.eq('mul = hamilton', (P * Q).vec, h.arr(qmul_ref(p, q)))
    h.is_type('type', P * Q, UnitQuaternion)
    h.is_type('inv type', P.inv(), UnitQuaternion)


for _n in range(-8, 9):
    def _qpow(h, n=_n):
        p = unit_quat(h, 'p')
        P = UnitQuaternion(p)
        r = [1, 0, 0, 0]
        for _ in range(abs(n)):
            r = qmul_ref(r, p)
        if n < 0:
            r = [r[0], -r[1], -r[2], -r[3]]
        Pn = P ** n
        h.eq(f'P**{n}', Pn.vec, h.arr(r))
        h.is_type('type', Pn, UnitQuaternion)
    claim(f'UnitQuaternion-pow{_n}')(_qpow)


@claim('UnitQuaternion-eq-double-cover')
def _(h):
    p = unit_quat(h, 'p')
    P = UnitQuaternion(p)
    M = UnitQuaternion(-p)
    h.true('q == -q', P == M)
    h.true('not q != -q', not (P != M))
    h.true('q == q', P == UnitQuaternion(p))


# ----------------------------------------------------------------------------- twists, compared as the motions they generate

import math as _math      # noqa: E402
from spatialmath import Twist3 as _Twist3, Twist2 as _Twist2      # noqa: E402

_TW_RANGES = {'mid': (1e-3, 3.14), 'half-turn-band': (_math.pi - 1.4e-7, _math.pi)}

_LAWS = {
    'right-identity': lambda X: (X * _Twist3(), X),
    'left-identity': lambda X: (_Twist3() * X, X),
    'inverse': lambda X: (X * X.inv(), _Twist3()),
}

for _ax in ('z', '236'):
    for _rn, (_lo, _hi) in _TW_RANGES.items():
        for _law, _f in _LAWS.items():
            @claim(f'twist-{_law}:{_ax}:{_rn}', values=True, split=True, tol=1e-7,
                   tier='thorough')       # twist composition = exp, product, log, exp: minutes per claim
            def _(h, ax=_ax, lo=_lo, hi=_hi, f=_f):
                """X = twist of a rotation by a symbolic angle about a D-grid axis with a fixed translational part; the law is
                compared through exp (twist composition passes through exp and log)"""
                th = h.angle('th', lo, hi)
                u = [float(x) if not h.sym else x for x in AXES[ax]]
                X = _Twist3(h.arr([0.1, 0.2, 0.3, th * u[0], th * u[1], th * u[2]]))
                lhs, rhs = f(X)
                h.is_type('type', lhs, _Twist3)
                h.eq('same motion', lhs.exp().A, rhs.exp().A, tol=1e-7)


# twist composition against the product of the motions, quick tier: concrete rotational parts (so exp / log branch on
# numbers only) and SYMBOLIC moments, i.e. axes through arbitrary points -- parallel axes through different points
# (where "rotations about a common direction commute" is false), a common axis, and skew axes
_TW_PAIRS = {'parallel-axes': ((0, 0, 0.3), (0, 0, 0.5)), 'antiparallel-axes': ((0, 0.4, 0), (0, -0.7, 0)),
             'skew-axes': ((0.3, 0, 0), (0, 0, 0.5)), 'rotation-then-translation': ((0.2, 0.3, 0.6), (0, 0, 0))}

for _pn, (_w1, _w2) in _TW_PAIRS.items():
    @claim(f'twist-composition:{_pn}', tol=1e-7, tier='thorough')
    def _(h, w1=_w1, w2=_w2):
        """exp(X * Y) = exp(X) exp(Y), and X * Y is a Twist3"""
        v1, v2 = h.vec('v1_', 3, -10, 10), h.vec('v2_', 3, -10, 10)
        X = _Twist3(h.arr([v1[0], v1[1], v1[2], *w1]))
        Y = _Twist3(h.arr([v2[0], v2[1], v2[2], *w2]))
        Z = X * Y
        h.is_type('type', Z, _Twist3)
        sc = 1 + nsq(v1) + nsq(v2)
        h.eq('same motion', Z.exp().A, matmul(X.exp().A, Y.exp().A), tol=1e-7, scale=sc)


@claim('twist-composition:parallel-axes-one-symbol', tol=1e-7)
def _(h):
    """quick-tier form of the same law: two revolute twists about the z direction, the second axis through the symbolic point
    (p, 0.5, 0): exp(X * Y) = exp(X) exp(Y)"""
    p = h.real('p', -10, 10)
    X = _Twist3(h.arr([0, 0, 0, 0, 0, 0.3]))
    Y = _Twist3(h.arr([0.25, -0.5 * p, 0, 0, 0, 0.5]))      # v = -w x q, w = (0, 0, 0.5), q = (p, 0.5, 0)
    Z = X * Y
    h.is_type('type', Z, _Twist3)
    h.eq('same motion', Z.exp().A, matmul(X.exp().A, Y.exp().A), tol=1e-7, scale=1 + p * p)
