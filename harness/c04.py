"""C04 All representations of the same motion agree and conversions are homomorphisms."""
import math
import numpy as np
from symreal.api import Registry
from spatialmath import base, SO2, SE2, SO3, SE3, Quaternion, UnitQuaternion, Twist3, Twist2, UnitDualQuaternion
from .common import *
from .ctors import unit_axis_times_length, _oa, _rotvec

REG = Registry('C04')
claim = REG.claim
EXPLANATION = ("C04: conversions between rotation matrix, unit quaternion, twist and unit dual quaternion and the shared named "
               "constructors executed on symbolic members; round trips, homomorphism of composition/inversion and equality of "
               "the rotation produced by the same constructor in each class are entrywise z3 obligations.")
BOUNDS = ("q -> R direction: full unit-quaternion family; R -> q direction (r2q): rotations about the D-grid axes by a symbolic "
          "angle (half-angle atom), sub-ranges covering each branch of r2q; translations |t_i| <= 1e3")
TIMEOUT = {'quick': 10, 'thorough': 120}


def FUNCS():
    return [base.r2q, base.q2r, UnitQuaternion.__init__, UnitQuaternion.R.fget, UnitQuaternion.SO3, UnitQuaternion.SE3,
            SE3.Twist3, Twist3.SE3, UnitDualQuaternion.__init__, UnitDualQuaternion.SE3, SO2.SE2, SE2.SE3, SE3.SO3,
            SO3.Rx, SE3.Rx, UnitQuaternion.Rx, SO3.RPY, UnitQuaternion.RPY, SO3.Eul, UnitQuaternion.Eul, SO3.AngVec,
            UnitQuaternion.AngVec, SO3.EulerVec, UnitQuaternion.EulerVec, SO3.OA, UnitQuaternion.OA, SO3.Exp]


# ----------------------------------------------------------------------------- quaternion -> matrix is a homomorphism

@claim('q2r-homomorphism', split=True)
def _(h):
    p, q = unit_quat(h, 'p'), unit_quat(h, 'q')
    P, Q = UnitQuaternion(p), UnitQuaternion(q)
    h.eq('R(pq) = R(p)R(q)', (P * Q).R, matmul(P.R, Q.R), tol=1e-6)
    h.eq('R(p^-1) = R(p)^T', P.inv().R, transpose(P.R), tol=1e-6)
    h.eq('SO3 route', (P * Q).SO3().A, (P.SO3() * Q.SO3()).A, tol=1e-6)
    h.eq('SE3 route', (P * Q).SE3().A, (P.SE3() * Q.SE3()).A, tol=1e-6)
    h.eq('q and -q: same matrix', UnitQuaternion(-p).R, P.R, tol=1e-6)
    v = h.vec('v', 3, -10, 10)
    h.eq('action on a point', P * v, matvec(P.R, v), tol=1e-6, scale=1 + nsq(v))


# ----------------------------------------------------------------------------- matrix -> quaternion (r2q), branch by branch

R2Q_RANGES = {'small': (0.0, 1e-3), 'mid': (1e-3, 1.5), 'near-pi': (1.5, 1.5707), 'half-turn': (1.5707, math.pi / 2)}

for _ax in ('z', 'x', '-y', '236', '122', '403'):
    for _rn, (_lo, _hi) in R2Q_RANGES.items():
        @claim(f'r2q-roundtrip:{_ax}:{_rn}', split=True, tier='quick' if (_ax == 'z' or (_ax == '236' and _rn == 'half-turn')) else 'thorough')
        def _(h, ax=_ax, lo=_lo, hi=_hi):
            """R = rotation by 2*hf about a D-grid axis (hf the half angle): q2r(r2q(R)) = R and r2q(R) = +-(cos hf, sin hf * u)"""
            hf = h.angle('hf', lo, hi)
            u = [Term_(h, x) for x in AXES[ax]]
            R = h.arr(rodrigues_ref(h, u, 2 * hf))
            s, c = h.sincos(hf)
            if h.sym:
                h.sqrt_hint(2 * c)
                h.sqrt_hint(2 * s)
                h.sqrt_hint(s)
                h.sqrt_hint(c)
            q = base.r2q(R)
            h.eq('unit', nsq(q), 1, tol=1e-6)
            h.eq('q2r(r2q(R)) = R', base.q2r(q), R, tol=1e-6)
            ref = [c, s * u[0], s * u[1], s * u[2]]
            h.eq('rotation of r2q(R) = rotation of (cos hf, sin hf u)', h.arr(q2r_ref(q)), h.arr(q2r_ref(ref)), tol=1e-6)
            h.eq('UnitQuaternion(R)', UnitQuaternion(R).vec, q, tol=1e-6)
            h.eq('UnitQuaternion(SO3)', UnitQuaternion(SO3(R, check=False)).vec, q, tol=1e-6)


def Term_(h, x):
    from fractions import Fraction
    from symreal.core import Term
    return Term.lift(Fraction(x)) if h.sym else float(Fraction(x))


@claim('r2q-of-product-about-z')
def _(h):
    """conversion commutes with composition (matrix -> quaternion direction), rotations about one axis"""
    a, b = h.angle('a', 0.01, 0.7), h.angle('b', 0.01, 0.7)
    if h.sym:
        for t in (a, b, a + b):
            s, c = h.sincos(t)
            h.sqrt_hint(2 * c)
            h.sqrt_hint(2 * s)
    Ra, Rb = h.arr(rotz_ref(h, 2 * a)), h.arr(rotz_ref(h, 2 * b))
    qa, qb, qab = UnitQuaternion(Ra), UnitQuaternion(Rb), UnitQuaternion(h.arr(matmul(Ra, Rb)))
    h.eq('UQ(Ra Rb) = UQ(Ra) UQ(Rb) as rotations', qab.R, (qa * qb).R, tol=1e-6)
    h.eq('UQ(Ra^T) = UQ(Ra)^-1 as rotations', UnitQuaternion(h.arr(transpose(Ra))).R, qa.inv().R, tol=1e-6)


# ----------------------------------------------------------------------------- shared named constructors

for _m, _ref in (('Rx', rotx_ref), ('Ry', roty_ref), ('Rz', rotz_ref)):
    for _u in ('rad', 'deg'):
        @claim(f'ctor:{_m}:{_u}')
        def _(h, m=_m, ref=_ref, u=_u):
            hf = h.angle('hf')          # half angle: UnitQuaternion uses a/2
            a = 2 * hf
            arg = h.deg(a) if u == 'deg' else a
            R = h.arr(ref(h, a))
            h.eq('SO3', getattr(SO3, m)(arg, unit=u).A, R, tol=1e-6)
            h.eq('SE3', getattr(SE3, m)(arg, unit=u).R, R, tol=1e-6)
            h.eq('UnitQuaternion', getattr(UnitQuaternion, m)(arg, unit=u).R, R, tol=1e-6)
            h.eq('SE3 translation zero', getattr(SE3, m)(arg, unit=u).t, [0, 0, 0])

for _o in ('zyx', 'xyz', 'yxz'):
    @claim(f'ctor:RPY:{_o}', split=True)
    def _(h, o=_o):
        a, b, c = h.angle('a', -1.5, 1.5), h.angle('b', -1.5, 1.5), h.angle('c', -1.5, 1.5)
        R = SO3.RPY([a, b, c], order=o).A
        h.eq('SE3', SE3.RPY([a, b, c], order=o).R, R, tol=1e-6)
        h.eq('base', base.rpy2r(a, b, c, order=o), R, tol=1e-6)
        h.eq('deg', SO3.RPY([h.deg(a), h.deg(b), h.deg(c)], order=o, unit='deg').A, R, tol=1e-6)


@claim('ctor:Eul')
def _(h):
    a, b, c = h.angle('a'), h.angle('b'), h.angle('c')
    R = SO3.Eul([a, b, c]).A
    h.eq('SE3', SE3.Eul([a, b, c]).R, R, tol=1e-6)
    h.eq('base', base.eul2r(a, b, c), R, tol=1e-6)


@claim('ctor:AngVec', split=True)
def _(h):
    hf = h.angle('hf')
    v, d, l = unit_axis_times_length(h, 'v')
    R = h.arr(rodrigues_ref(h, d, 2 * hf))
    h.eq('SO3', SO3.AngVec(2 * hf, v).A, R, tol=1e-6)
    h.eq('SE3', SE3.AngVec(2 * hf, v).R, R, tol=1e-6)
    h.eq('UnitQuaternion', UnitQuaternion.AngVec(2 * hf, v).R, R, tol=1e-6)
    h.eq('deg', SO3.AngVec(h.deg(2 * hf), v, unit='deg').A, R, tol=1e-6)


@claim('ctor:EulerVec', split=True)
def _(h):
    u = h.vec('wu', 3, -1, 1)
    hf = h.angle('hf', 5e-4, 3.14)
    if h.sym:
        h.unit(u)
        h.sqrt_hint(2 * hf)
    else:
        u = unitize(u)
    w = h.arr([2 * hf * u[0], 2 * hf * u[1], 2 * hf * u[2]])
    R = h.arr(rodrigues_ref(h, u, 2 * hf))
    h.eq('SO3', SO3.EulerVec(w).A, R, tol=1e-6)
    h.eq('SE3', SE3.EulerVec(w).R, R, tol=1e-6)
    h.eq('UnitQuaternion', UnitQuaternion.EulerVec(w).R, R, tol=1e-6)
    h.eq('SO3.Exp', SO3.Exp(w).A, R, tol=1e-6)


@claim('ctor:OA-SO3-SE3', split=True)
def _(h):
    o, a = _oa(h)
    R = SO3.OA(o, a).A
    h.same('SE3.OA', SE3.OA(o, a).R, R)
    h.same('base.oa2r', base.oa2r(o, a), R)


# ----------------------------------------------------------------------------- embeddings

@claim('embedding:SO2-SE2-SE3', split=True)
def _(h):
    a, b = h.angle('a'), h.angle('b')
    X, Y = SO2(h.arr(rot2_ref(h, a)), check=False), SO2(h.arr(rot2_ref(h, b)), check=False)
    h.eq('SE2(X*Y) = SE2(X)*SE2(Y)', (X * Y).SE2().A, (X.SE2() * Y.SE2()).A, tol=1e-6)
    h.eq('SE2(X^-1)', X.inv().SE2().A, X.SE2().inv().A, tol=1e-6)
    p = h.vec('p', 2, -10, 10)
    h.eq('action preserved', np.asarray(X.SE2() * p).ravel(), np.asarray(X * p).ravel(), tol=1e-6, scale=1 + nsq(p))
    T1, T2 = SE2(hom(h, rot2_ref(h, a), h.vec('t', 2, -10, 10)), check=False), SE2(hom(h, rot2_ref(h, b), h.vec('s', 2, -10, 10)), check=False)
    sc = 1000
    h.eq('SE3(T1*T2) = SE3(T1)*SE3(T2)', (T1 * T2).SE3().A, (T1.SE3() * T2.SE3()).A, tol=1e-6, scale=sc)
    h.eq('SE3(T^-1)', T1.inv().SE3().A, T1.SE3().inv().A, tol=1e-6, scale=sc)
    lifted = np.asarray(T1.SE3() * h.arr([p[0], p[1], 0])).ravel()
    planar = np.asarray(T1 * p).ravel()
    h.eq('action preserved (z = 0 plane)', lifted, h.arr([planar[0], planar[1], 0]), tol=1e-6, scale=sc)


@claim('embedding:SO3-SE3', split=True)
def _(h):
    R1, _ = rot_quat(h, 'A')
    R2, _ = rot_quat(h, 'B')
    X, Y = SO3(R1, check=False), SO3(R2, check=False)
    E = lambda Z: SE3.SO3(Z)
    h.eq('SE3(X*Y) = SE3(X)*SE3(Y)', E(X * Y).A, (E(X) * E(Y)).A, tol=1e-6)
    h.eq('SE3(X^-1)', E(X.inv()).A, E(X).inv().A, tol=1e-6)
    p = h.vec('p', 3, -10, 10)
    h.eq('action preserved', np.asarray(E(X) * p).ravel(), np.asarray(X * p).ravel(), tol=1e-6, scale=1 + nsq(p))
    h.eq('from matrix', SE3.SO3(R1).A, E(X).A)


# ----------------------------------------------------------------------------- unit dual quaternion <-> SE3

@claim('udq-roundtrip', split=True)
def _(h):
    q = unit_quat(h, 'q')
    t = h.vec('t', 3, -1e3, 1e3)
    real = UnitQuaternion(q)
    d = UnitDualQuaternion(real, 0.5 * Quaternion.Pure(t) * real)
    T = d.SE3().A
    h.eq('SE3 of the dual quaternion', T, hom(h, q2r_ref(q), t), tol=1e-6, scale=1 + nsq(t))


@claim('udq-homomorphism', split=True)
def _(h):
    p, q = unit_quat(h, 'p'), unit_quat(h, 'q')
    t, s = h.vec('t', 3, -1e3, 1e3), h.vec('s', 3, -1e3, 1e3)
    mk = lambda qq, tt: UnitDualQuaternion(UnitQuaternion(qq), 0.5 * Quaternion.Pure(tt) * UnitQuaternion(qq))
    d1, d2 = mk(p, t), mk(q, s)
    T1, T2 = hom(h, q2r_ref(p), t), hom(h, q2r_ref(q), s)
    h.eq('SE3(d1*d2) = T1 T2', (d1 * d2).SE3().A, matmul(T1, T2), tol=1e-6, scale=1 + nsq(t) + nsq(s))


@claim('udq-from-SE3-axis-rotation', split=True)
def _(h):
    hf = h.angle('hf', 0.01, 1.5)
    t = h.vec('t', 3, -1e3, 1e3)
    if h.sym:
        s, c = h.sincos(hf)
        h.sqrt_hint(2 * c)
        h.sqrt_hint(2 * s)
    T = hom(h, rotz_ref(h, 2 * hf), t)
    d = UnitDualQuaternion(SE3(T, check=False))
    h.eq('UnitDualQuaternion(T).SE3() = T', d.SE3().A, T, tol=1e-6, scale=1 + nsq(t))


# ----------------------------------------------------------------------------- twist <-> pose

# the half-turn band of trlog is |trace+1| < 100 eps, i.e. within 1.49e-7 rad of pi; [pi-1.4e-7, pi] is inside it in doubles too
TW_RANGES = {'mid': (1e-3, 3.14), 'near-pi': (3.14, math.pi - 2e-7), 'half-turn-band': (math.pi - 1.4e-7, math.pi)}

for _ax in ('z', '236', '122'):
    for _rn, (_lo, _hi) in TW_RANGES.items():
        @claim(f'twist-roundtrip:{_ax}:{_rn}', values=True, split=True,
               tier='quick' if (_ax == 'z' or (_ax == '236' and _rn == 'half-turn-band')) else 'thorough')
        def _(h, ax=_ax, lo=_lo, hi=_hi):
            R, th = rot_axis(h, 'th', AXES[ax], lo, hi)
            t = h.vec('t', 3, -1e3, 1e3)
            T = hom(h, R, t)
            X = SE3(T, check=False)
            tw = X.Twist3()
            h.is_type('type', tw, Twist3)
            h.true('rotation magnitude <= pi', nsq(tw.w) <= math.pi ** 2 * (1 + 1e-9))
            h.eq('Twist3(T).exp() = T', base.trexp(tw.S), T, tol=1e-6, scale=1 + nsq(t))
            h.same('Twist3(SE3) same as SE3.Twist3()', Twist3(X).S, tw.S)


# ----------------------------------------------------------------------------- table (N x 3 / vector) forms of the named constructors

def _rows(h):
    """one symbolic row and one concrete row (two symbolic rows only square the paths; the options are the subject)"""
    a, b, c = h.angle('a', -3.1, 3.1), h.angle('b', -1.5, 1.5), h.angle('c', -3.1, 3.1)
    return [[a, b, c], [0.3, -0.4, 0.5]]


def _table(h, rows, unit):
    conv = (lambda x: h.deg(x) if not isinstance(x, float) else math.degrees(x)) if unit == 'deg' else (lambda x: x)
    return np.array([[conv(x) for x in r] for r in rows], dtype=object if h.sym or h.mode == 'concolic' else float)


TABLE_CTORS = {}
for _o in ('zyx', 'xyz', 'yxz'):
    for _u in ('rad', 'deg'):
        TABLE_CTORS[f'SO3.RPY:{_o}:{_u}'] = (lambda t, o=_o, u=_u: SO3.RPY(t, order=o, unit=u), lambda r, o=_o, u=_u: base.rpy2r(r, order=o, unit=u))
        TABLE_CTORS[f'SE3.RPY:{_o}:{_u}'] = (lambda t, o=_o, u=_u: SE3.RPY(t, order=o, unit=u), lambda r, o=_o, u=_u: base.rpy2tr(r, order=o, unit=u))
for _u in ('rad', 'deg'):
    TABLE_CTORS[f'SO3.Eul:{_u}'] = (lambda t, u=_u: SO3.Eul(t, unit=u), lambda r, u=_u: base.eul2r(r, unit=u))
    TABLE_CTORS[f'SE3.Eul:{_u}'] = (lambda t, u=_u: SE3.Eul(t, unit=u), lambda r, u=_u: base.eul2tr(r, unit=u))

for _name, (_mk, _ref) in TABLE_CTORS.items():
    @claim(f'table-ctor:{_name}')
    def _(h, name=_name, mk=_mk, ref=_ref):
        """N x 3 table of angles: element i is what the single-row call gives for row i, with the same order / unit options"""
        unit = name.rsplit(':', 1)[1]
        rows = _rows(h)
        tab = _table(h, rows, unit)
        X = mk(tab)
        h.true('one value per row', len(X) == 2)
        for i in range(2):
            h.same(f'element {i} = single-row result', X.data[i], ref(list(tab[i])))
        h.same('single row through the class', mk(list(tab[0])).A, ref(list(tab[0])))


VEC_CTORS = {}
for _ax in 'xyz':
    for _u in ('rad', 'deg'):
        VEC_CTORS[f'SO3.R{_ax}:{_u}'] = (lambda v, ax=_ax, u=_u: getattr(SO3, 'R' + ax)(v, unit=u), lambda x, ax=_ax, u=_u: getattr(base, 'rot' + ax)(x, unit=u))
        VEC_CTORS[f'SE3.R{_ax}:{_u}'] = (lambda v, ax=_ax, u=_u: getattr(SE3, 'R' + ax)(v, unit=u), lambda x, ax=_ax, u=_u: getattr(base, 'trot' + ax)(x, unit=u))
for _u in ('rad', 'deg'):
    VEC_CTORS[f'SO2:{_u}'] = (lambda v, u=_u: SO2(v, unit=u), lambda x, u=_u: base.rot2(x, unit=u))

for _name, (_mk, _ref) in VEC_CTORS.items():
    @claim(f'vector-ctor:{_name}')
    def _(h, name=_name, mk=_mk, ref=_ref):
        """vector of angles: element i is the single-angle result with the same unit"""
        unit = name.rsplit(':', 1)[1]
        a = h.angle('a', -6.29, 6.29)
        vals = [h.deg(a), 30.0] if unit == 'deg' else [a, 0.5]
        X = mk(np.array(vals, dtype=object if h.sym or h.mode == 'concolic' else float))
        h.true('one value per angle', len(X) == 2)
        for i in range(2):
            h.same(f'element {i}', X.data[i], ref(vals[i]))
